//! Deviation-bounded exploration of parallel-region orders, reduction shapes,
//! thread counts and hash-map iteration orders (DESIGN E5 / E5b) for C18.
//!
//! One EXECUTION = `subjects::execute` (compile, prove, verify, compress +
//! compile_with_compressed) under one SCHEDULE. Each of the four phases has
//! its own ordinal spaces (rayon regions, hash-map sites), restarted at the
//! phase boundary, so a deviation is addressed as (phase, space, ordinal).
//! Oracle: all artefact bytes equal those of the canonical schedule
//! (identity order, insertion order, one thread), and the proof verifies.

use std::collections::{BTreeMap, BTreeSet, HashSet};
use std::panic::{catch_unwind, AssertUnwindSafe};
use std::sync::atomic::{AtomicUsize, Ordering};
use std::sync::Mutex;
use std::time::{Duration, Instant};

use dusk_bytes::Serializable;
use dusk_plonk::prelude::{BlsScalar, Proof, Prover, PublicParameters, Verifier};
use hashbrown::control as hc;
use rayon::control as rc;
use serde_json::{json, Value};

use crate::ev::{Run, Tier};
use crate::fe::fnv;
use crate::subjects::{self, Artefacts};

pub const PHASES: [&str; 4] = ["compile", "prove", "verify", "compress"];
pub const THREADS: [usize; 9] = [1, 2, 3, 4, 5, 8, 16, 17, 32];

#[derive(Clone, Debug, PartialEq, Eq, Hash)]
pub enum Choice {
    R(rc::Policy),
    H(hc::Order),
}
impl Choice {
    fn name(&self) -> String {
        match self {
            Choice::R(p) => p.name().to_string(),
            Choice::H(o) => o.name(),
        }
    }
    fn space(&self) -> &'static str {
        match self {
            Choice::R(_) => "rayon",
            Choice::H(_) => "hashmap",
        }
    }
}

#[derive(Clone, Debug, PartialEq, Eq, Hash)]
pub struct Dev {
    pub phase: usize,
    pub ordinal: u64,
    pub choice: Choice,
}

#[derive(Clone, Debug)]
pub struct Sched {
    pub threads: usize,
    pub rdef: rc::Policy,
    pub hdef: hc::Order,
    pub devs: Vec<Dev>,
    /// why the explorer generated it (bound0 / threads / global / bound1 / bound2)
    pub tag: &'static str,
    /// human-readable class of the deviation(s), used in violation signatures
    pub class: String,
}

impl Sched {
    pub fn canonical(threads: usize) -> Sched {
        Sched { threads, rdef: rc::Policy::Identity, hdef: hc::Order::Insertion, devs: vec![], tag: "bound0", class: format!("threads={}", threads) }
    }
    fn key(&self) -> String {
        let mut s = format!("t{}|{}|{}", self.threads, self.rdef.name(), self.hdef.name());
        for d in &self.devs {
            s.push_str(&format!("|{}:{}:{}:{}", d.phase, d.choice.space(), d.ordinal, d.choice.name()));
        }
        s
    }
    pub fn to_json(&self) -> Value {
        json!({
            "num_threads": self.threads,
            "rayon_default": self.rdef.name(),
            "hashmap_default": self.hdef.name(),
            "deviations": self.devs.iter().map(|d| json!({
                "phase": PHASES[d.phase], "space": d.choice.space(), "ordinal": d.ordinal, "policy": d.choice.name()})).collect::<Vec<_>>(),
            "generated_by": self.tag,
            "class": self.class,
        })
    }
    pub fn from_json(v: &Value) -> Result<Sched, String> {
        let threads = v.get("num_threads").and_then(|x| x.as_u64()).ok_or("num_threads")? as usize;
        let rdef = v.get("rayon_default").and_then(|x| x.as_str()).and_then(rc::Policy::from_name).ok_or("rayon_default")?;
        let hdef = v.get("hashmap_default").and_then(|x| x.as_str()).and_then(hc::Order::from_name).ok_or("hashmap_default")?;
        let mut devs = vec![];
        for d in v.get("deviations").and_then(|x| x.as_array()).ok_or("deviations")? {
            let phase = d.get("phase").and_then(|x| x.as_str()).and_then(|p| PHASES.iter().position(|q| *q == p)).ok_or("phase")?;
            let ordinal = d.get("ordinal").and_then(|x| x.as_u64()).ok_or("ordinal")?;
            let pol = d.get("policy").and_then(|x| x.as_str()).ok_or("policy")?;
            let choice = match d.get("space").and_then(|x| x.as_str()) {
                Some("rayon") => Choice::R(rc::Policy::from_name(pol).ok_or("rayon policy")?),
                Some("hashmap") => Choice::H(hc::Order::from_name(pol).ok_or("hashmap order")?),
                _ => return Err("space".into()),
            };
            devs.push(Dev { phase, ordinal, choice });
        }
        Ok(Sched { threads, rdef, hdef, devs, tag: "replay", class: v.get("class").and_then(|x| x.as_str()).unwrap_or("replay").to_string() })
    }
}

/// Everything observed in one execution.
pub struct Exec {
    pub art: Result<Artefacts, String>,
    /// which phases ran (see `phases_needed`)
    pub ran: [bool; 4],
    pub rt: Vec<rc::Trace>,
    pub ht: Vec<hc::Trace>,
    pub phase_ms: [u64; 4],
}

/// Canonical intermediate objects (built under the canonical schedule at a
/// given thread count), kept per worker thread so that a schedule deviating
/// only in a later phase need not recompute the canonical earlier phases.
pub struct Canon {
    prover: Prover,
    verifier: Verifier,
    proof: Proof,
    pis: Vec<BlsScalar>,
}
#[derive(Default)]
pub struct Cache {
    canon: BTreeMap<usize, Canon>,
}

/// Phases an execution has to run. Whole-run schedules run everything. A
/// schedule whose deviations all lie in one part of the pipeline runs that
/// phase and everything downstream of it: compile -> prove -> verify is a
/// chain, compress (+ compile_with_compressed) is independent of it. The
/// skipped phases would run under the canonical schedule, whose outputs are
/// the reference (replay-checked), so nothing is lost.
pub fn phases_needed(s: &Sched) -> [bool; 4] {
    if s.devs.is_empty() || s.rdef != rc::Policy::Identity || s.hdef != hc::Order::Insertion {
        return [true; 4];
    }
    let first_chain = s.devs.iter().filter(|d| d.phase < 3).map(|d| d.phase).min();
    let mut need = [false; 4];
    if let Some(f) = first_chain {
        for p in f..3 {
            need[p] = true;
        }
    }
    need[3] = s.devs.iter().any(|d| d.phase == 3);
    need
}

struct Tracer<'a> {
    s: &'a Sched,
    rt: Vec<rc::Trace>,
    ht: Vec<hc::Trace>,
    ms: [u64; 4],
    open: Option<(usize, Instant)>,
}
impl<'a> Tracer<'a> {
    fn new(s: &'a Sched) -> Self {
        Tracer { s, rt: (0..4).map(|_| rc::Trace::default()).collect(), ht: (0..4).map(|_| hc::Trace::default()).collect(), ms: [0; 4], open: None }
    }
    fn begin(&mut self, pi: usize) {
        let ro: Vec<(u64, rc::Policy)> = self
            .s
            .devs
            .iter()
            .filter(|d| d.phase == pi)
            .filter_map(|d| match &d.choice {
                Choice::R(p) => Some((d.ordinal, *p)),
                _ => None,
            })
            .collect();
        let ho: Vec<(u64, hc::Order)> = self
            .s
            .devs
            .iter()
            .filter(|d| d.phase == pi)
            .filter_map(|d| match &d.choice {
                Choice::H(o) => Some((d.ordinal, *o)),
                _ => None,
            })
            .collect();
        rc::begin(&rc::Schedule { default: self.s.rdef, overrides: ro, num_threads: self.s.threads });
        hc::begin(&hc::Schedule { default: self.s.hdef, overrides: ho });
        self.open = Some((pi, Instant::now()));
    }
    /// Also puts both controllers back to the canonical schedule.
    fn end(&mut self) {
        if let Some((pi, t0)) = self.open.take() {
            self.rt[pi] = rc::end();
            self.ht[pi] = hc::end();
            self.ms[pi] = t0.elapsed().as_millis() as u64;
        }
    }
}

fn build_canon(subj: &subjects::Subject, pp: &PublicParameters, threads: usize, reference: Option<&Artefacts>) -> Result<Canon, String> {
    rc::begin(&rc::Schedule { default: rc::Policy::Identity, overrides: vec![], num_threads: threads });
    hc::begin(&hc::Schedule::default());
    let r = catch_unwind(AssertUnwindSafe(|| -> Result<Canon, String> {
        let (prover, verifier) = subjects::phase_compile(subj, pp)?;
        let (proof, pis, _) = subjects::phase_prove(subj, &prover)?;
        Ok(Canon { prover, verifier, proof, pis })
    }));
    rc::end();
    hc::end();
    let c = match r {
        Ok(r) => r.map_err(|e| format!("machinery: canonical objects: {}", e))?,
        Err(e) => return Err(format!("machinery: canonical objects: panic: {}", panic_msg(e))),
    };
    if let Some(rf) = reference {
        if c.prover.to_bytes() != rf.prover || c.proof.to_bytes().to_vec() != rf.proof {
            // at threads = 1 this is a replay divergence; at other thread
            // counts the thread sweep reports the same difference as a verdict
            if threads == 1 {
                return Err("machinery: canonical objects differ from the reference".into());
            }
        }
    }
    Ok(c)
}

pub fn run_sched(subj: &subjects::Subject, pp: &PublicParameters, s: &Sched, cache: &mut Cache, reference: Option<&Artefacts>) -> Exec {
    let need = phases_needed(s);
    let mut tr = Tracer::new(s);
    let uses_cache = (need[1] || need[2]) && !need[0];
    if uses_cache && !cache.canon.contains_key(&s.threads) {
        match build_canon(subj, pp, s.threads, reference) {
            Ok(c) => {
                cache.canon.insert(s.threads, c);
            }
            Err(e) => return Exec { art: Err(e), ran: need, rt: tr.rt, ht: tr.ht, phase_ms: tr.ms },
        }
    }
    let canon = cache.canon.get(&s.threads);
    let res = catch_unwind(AssertUnwindSafe(|| -> Result<Artefacts, String> {
        let mut out = Artefacts::default();
        let mut keys: Option<(Prover, Verifier)> = None;
        let mut proved: Option<(Proof, Vec<BlsScalar>)> = None;
        if need[0] {
            tr.begin(0);
            let k = subjects::phase_compile(subj, pp)?;
            out.prover = k.0.to_bytes();
            out.verifier = k.1.to_bytes();
            out.constraints = subj.prog.last_snapshot().map(|sn| sn.gates.len()).unwrap_or(0);
            keys = Some(k);
            tr.end();
        }
        if need[1] {
            let prover = match (&keys, canon) {
                (Some(k), _) => &k.0,
                (None, Some(c)) => &c.prover,
                _ => return Err("machinery: no prover".into()),
            };
            tr.begin(1);
            let (proof, pis, draws) = subjects::phase_prove(subj, prover)?;
            out.rng_draws = draws;
            out.proof = proof.to_bytes().to_vec();
            out.public_inputs = subjects::pi_bytes(&pis);
            proved = Some((proof, pis));
            tr.end();
        }
        if need[2] {
            let verifier = match (&keys, canon) {
                (Some(k), _) => &k.1,
                (None, Some(c)) => &c.verifier,
                _ => return Err("machinery: no verifier".into()),
            };
            let (proof, pis) = match (&proved, canon) {
                (Some(p), _) => (&p.0, &p.1),
                (None, Some(c)) => (&c.proof, &c.pis),
                _ => return Err("machinery: no proof".into()),
            };
            tr.begin(2);
            out.verified = subjects::phase_verify(verifier, proof, pis);
            tr.end();
        }
        if need[3] {
            tr.begin(3);
            let (c, cp, cv) = subjects::phase_compress(subj, pp)?;
            out.compressed = c;
            out.c_prover = cp;
            out.c_verifier = cv;
            tr.end();
        }
        Ok(out)
    }));
    // error return or panic in the middle of a phase: close it
    tr.end();
    let art = match res {
        Ok(r) => r,
        Err(e) => Err(format!("panic: {}", panic_msg(e))),
    };
    Exec { art, ran: need, rt: tr.rt, ht: tr.ht, phase_ms: tr.ms }
}

fn panic_msg(e: Box<dyn std::any::Any + Send>) -> String {
    if let Some(s) = e.downcast_ref::<&str>() {
        s.to_string()
    } else if let Some(s) = e.downcast_ref::<String>() {
        s.clone()
    } else {
        "panic".to_string()
    }
}

/// Compact result of comparing one execution with the reference.
#[derive(Clone, Debug)]
pub struct Outcome {
    pub idx: usize,
    /// artefact names that differ / "not-verified" / "error:<msg>"
    pub diff: Vec<String>,
    pub regions: u64,
    pub sites: u64,
    pub permuted_regions: u64,
    pub permuted_sites: u64,
    pub unused_overrides: u64,
    pub wall_ms: u64,
}

fn compare(reference: &Artefacts, e: &Exec) -> Vec<String> {
    let mut diff = vec![];
    match &e.art {
        Err(m) => diff.push(format!("error:{}", m)),
        Ok(a) => {
            // artefact -> producing phase
            let phase_of = [0usize, 0, 1, 1, 3, 3, 3];
            for (i, ((name, x), (_, y))) in a.parts().iter().zip(reference.parts().iter()).enumerate() {
                if e.ran[phase_of[i]] && x != y {
                    diff.push(name.to_string());
                }
            }
            if e.ran[2] && !a.verified {
                diff.push("not-verified".into());
            }
            if e.ran[1] && a.rng_draws != reference.rng_draws {
                diff.push("rng-draw-count".into());
            }
        }
    }
    diff
}

fn summarize(idx: usize, reference: &Artefacts, e: &Exec, wall_ms: u64) -> Outcome {
    Outcome {
        idx,
        diff: compare(reference, e),
        regions: e.rt.iter().map(|t| t.regions.len() as u64).sum(),
        sites: e.ht.iter().map(|t| t.sites.len() as u64).sum(),
        permuted_regions: e.rt.iter().map(|t| t.regions.iter().filter(|r| r.permuted).count() as u64).sum(),
        permuted_sites: e.ht.iter().map(|t| t.sites.iter().filter(|r| r.permuted).count() as u64).sum(),
        unused_overrides: e.rt.iter().map(|t| t.unused_overrides.len() as u64).sum::<u64>()
            + e.ht.iter().map(|t| t.unused_overrides.len() as u64).sum::<u64>(),
        wall_ms,
    }
}

pub fn workers() -> usize {
    std::env::var("VERIF_WORKERS").ok().and_then(|s| s.parse().ok()).unwrap_or(16)
}

/// Run the schedules on `workers()` OS threads (controller state is
/// thread-local; every worker builds its own subject). Stops handing out work
/// at `deadline`; returns the outcomes of the schedules that ran.
fn par_run(id: &str, pp: &PublicParameters, reference: &Artefacts, scheds: &[Sched], deadline: Option<Instant>) -> Vec<Outcome> {
    let next = AtomicUsize::new(0);
    let out: Mutex<Vec<Outcome>> = Mutex::new(Vec::with_capacity(scheds.len()));
    let nw = workers().min(scheds.len().max(1));
    std::thread::scope(|sc| {
        for w in 0..nw {
            let (next, out) = (&next, &out);
            std::thread::Builder::new()
                .name(format!("sched-{}", w))
                .stack_size(64 << 20)
                .spawn_scoped(sc, move || {
                    let subj = subjects::subject(id);
                    let mut cache = Cache::default();
                    loop {
                        if let Some(d) = deadline {
                            if Instant::now() > d {
                                break;
                            }
                        }
                        let i = next.fetch_add(1, Ordering::SeqCst);
                        if i >= scheds.len() {
                            break;
                        }
                        let t0 = Instant::now();
                        let e = run_sched(&subj, pp, &scheds[i], &mut cache, Some(reference));
                        let o = summarize(i, reference, &e, t0.elapsed().as_millis() as u64);
                        out.lock().unwrap().push(o);
                    }
                })
                .expect("spawn worker");
        }
    });
    let mut v = out.into_inner().unwrap();
    v.sort_by_key(|o| o.idx);
    v
}

/// A choice point of a base trace.
#[derive(Clone, Debug)]
struct Point {
    phase: usize,
    ordinal: u64,
    /// (phase, kind, file, line, size) — FFT stages differ by size
    class: String,
    choices: Vec<Choice>,
}

fn short(file: &str) -> String {
    // registry paths are absolute; keep "<crate>/src/…"
    match file.rfind("/src/") {
        Some(i) => {
            let head = &file[..i];
            let krate = head.rsplit('/').next().unwrap_or("");
            format!("{}{}", krate, &file[i..])
        }
        None => file.to_string(),
    }
}

fn points_of(e: &Exec) -> Vec<Point> {
    let mut v = vec![];
    for (phase, t) in e.rt.iter().enumerate() {
        for r in &t.regions {
            let choices: Vec<Choice> = rc::applicable(r.kind, r.tasks).into_iter().map(Choice::R).collect();
            if choices.is_empty() {
                continue;
            }
            v.push(Point {
                phase,
                ordinal: r.ordinal,
                class: format!("{}:{}@{}:{}#{}", PHASES[phase], r.kind.name(), short(r.file), r.line, r.tasks),
                choices,
            });
        }
    }
    for (phase, t) in e.ht.iter().enumerate() {
        for s in &t.sites {
            if s.entries < 2 {
                continue;
            }
            v.push(Point {
                phase,
                ordinal: s.ordinal,
                class: format!("{}:map.{}@{}:{}#{}", PHASES[phase], s.kind.name(), short(s.file), s.line, s.entries),
                choices: hc::Order::ALL.iter().copied().filter(|o| *o != hc::Order::Insertion).map(Choice::H).collect(),
            });
        }
    }
    v
}

fn shape(e: &Exec) -> Vec<String> {
    let mut v = vec![];
    for (phase, t) in e.rt.iter().enumerate() {
        for r in &t.regions {
            v.push(format!("{}:{}:{}@{}:{}#{}", phase, r.ordinal, r.kind.name(), r.file, r.line, r.tasks));
        }
    }
    for (phase, t) in e.ht.iter().enumerate() {
        for s in &t.sites {
            v.push(format!("{}:{}:map.{}@{}:{}#{}", phase, s.ordinal, s.kind.name(), s.file, s.line, s.entries));
        }
    }
    v
}

fn bound1(points: &[Point], threads: usize) -> Vec<Sched> {
    let mut v = vec![];
    for p in points {
        for c in &p.choices {
            let mut s = Sched::canonical(threads);
            s.devs = vec![Dev { phase: p.phase, ordinal: p.ordinal, choice: c.clone() }];
            s.tag = "bound1";
            s.class = format!("t{}:{}/{}", threads, p.class, c.name());
            v.push(s);
        }
    }
    v
}

fn global_schedules(threads: usize) -> Vec<Sched> {
    let mut v = vec![];
    let mk = |r: rc::Policy, h: hc::Order| {
        let mut s = Sched::canonical(threads);
        s.rdef = r;
        s.hdef = h;
        s.tag = "global";
        s.class = format!("t{}:global:{}+{}", threads, r.name(), h.name());
        s
    };
    for p in rc::Policy::ALL.iter().copied().filter(|p| *p != rc::Policy::Identity) {
        v.push(mk(p, hc::Order::Insertion));
    }
    for o in hc::Order::ALL.iter().copied().filter(|o| *o != hc::Order::Insertion) {
        v.push(mk(rc::Policy::Identity, o));
    }
    v.push(mk(rc::Policy::Reverse, hc::Order::ReverseInsertion));
    v.push(mk(rc::Policy::RotateBy1, hc::Order::Shuffle(1)));
    v.push(mk(rc::Policy::OddBeforeEven, hc::Order::DescendingKeyHash));
    v.push(mk(rc::Policy::LastFirst, hc::Order::AscendingKeyHash));
    v.push(mk(rc::Policy::Halves, hc::Order::Shuffle(2)));
    v
}

struct Found {
    rank: usize,
    sig: String,
    what: String,
    case: Value,
}

/// Report the differing schedules of one circuit, minimal ones first; at most
/// 8 VIOLATION lines / replay files per circuit, the rest is only counted.
fn report_found(run: &mut Run, found: &mut Vec<Found>) {
    found.sort_by_key(|f| f.rank);
    for (i, f) in found.drain(..).enumerate() {
        if i < 8 {
            run.violation(&f.sig, &f.what, f.case);
        } else {
            run.violations += 1;
            run.outcome("violations-counted-but-not-printed");
        }
    }
}

struct SubjectReport {
    json: Value,
}

#[allow(clippy::too_many_arguments)]
fn account(
    run: &mut Run,
    id: &str,
    scheds: &[Sched],
    outs: &[Outcome],
    seen: &mut HashSet<String>,
    any_region_permuted: &mut bool,
    any_site_permuted: &mut bool,
    found: &mut Vec<Found>,
) {
    for o in outs {
        let s = &scheds[o.idx];
        let key = format!("{}|{}", id, s.key());
        if seen.insert(key.clone()) {
            run.states += 1;
        }
        run.evaluations += 1;
        run.transitions += o.regions + o.sites;
        run.traces_validated += 1;
        if o.permuted_regions + o.permuted_sites > 0 {
            run.nontrivial(fnv(key.as_bytes()));
        }
        *any_region_permuted |= o.permuted_regions > 0;
        *any_site_permuted |= o.permuted_sites > 0;
        if o.unused_overrides > 0 {
            run.outcome("override-ordinal-not-reached");
        }
        if o.diff.iter().any(|d| d.starts_with("error:machinery:")) {
            run.machinery(format!("{} {}: {:?}", id, s.class, o.diff));
        } else if o.diff.is_empty() {
            run.outcome(&format!("{}:identical", s.tag));
        } else {
            run.outcome(&format!("{}:DIFFERENT", s.tag));
            let first = o.diff[0].split(':').next().unwrap_or("diff").to_string();
            let sig = format!("sched:{}:{}:{}", id, first, s.class);
            // fewest deviations first: canonical order at another thread
            // count (0), one deviation (1), two (2), whole-run policies (3)
            let rank = match (s.tag, s.devs.len()) {
                ("global", _) => 3,
                (_, n) if s.rdef == rc::Policy::Identity && s.hdef == hc::Order::Insertion => n,
                _ => 3,
            };
            found.push(Found {
                rank,
                sig,
                what: format!("artefacts differ from the canonical schedule: {:?} under {}", o.diff, s.class),
                case: json!({"circuit": id, "schedule": s.to_json(), "differs": o.diff}),
            });
        }
    }
}

/// The exploration of one circuit is split into parts so that a wall cap cuts
/// into the optional parts (scheduled last) first.
#[derive(Clone, Copy, PartialEq, Eq, Debug)]
enum Part {
    /// mandatory: bound 0, thread sweep, whole-run policies, bound 1 on the
    /// selected choice points (g5: all; larger circuits: class
    /// representatives [+ stride])
    Main,
    /// optional (thorough, g9): bound 1 on every remaining choice point, at 1
    /// and at 4 threads
    Rest1,
    /// optional (thorough, g5): pairs of choice points
    Bound2,
}

fn explore_subject(run: &mut Run, tier: Tier, id: &str, deadline: Instant, part: Part) -> Option<SubjectReport> {
    let only_bound2 = part != Part::Main; // skip everything but the part's own batch
    let t_start = Instant::now();
    let subj = subjects::subject(id);
    let pp = subjects::pp_for(&subj);
    let t_setup = t_start.elapsed().as_secs_f64();

    // ---- bound 0: the reference, twice (replay determinism of the machinery)
    let mut cache0 = Cache::default();
    let t0 = Instant::now();
    let ref1 = run_sched(&subj, &pp, &Sched::canonical(1), &mut cache0, None);
    let ref_ms = t0.elapsed().as_millis() as u64;
    let ref2 = run_sched(&subj, &pp, &Sched::canonical(1), &mut cache0, None);
    let reference = match (&ref1.art, &ref2.art) {
        (Ok(a), Ok(b)) => {
            if a != b || shape(&ref1) != shape(&ref2) {
                run.machinery(format!("{}: the canonical schedule replayed with different bytes or a different trace", id));
                return None;
            }
            a.clone()
        }
        (Err(e), _) | (_, Err(e)) => {
            let gates = subj.prog.run().map(|s| s.gates.len() as i64).unwrap_or(-1);
            run.machinery(format!("{}: reference execution failed: {} (circuit has {} constraints)", id, e, gates));
            return None;
        }
    };
    if !reference.verified {
        run.machinery(format!("{}: reference proof does not verify", id));
        return None;
    }
    if !only_bound2 {
        println!("{}", reference.hash_line(id));
    }
    // padded subjects leave room for the 6 blinding rows inside 2^log_n; domain-filling
    // subjects (`f*`) have exactly 2^log_n constraints
    let domain_ok = if id.starts_with('f') { reference.constraints == 1 << subj.log_n } else { (reference.constraints + 6).next_power_of_two() == 1 << subj.log_n };
    run.gate(&format!("{}: circuit compiles to domain 2^{}", id, subj.log_n), domain_ok);

    let mut seen: HashSet<String> = HashSet::new();
    let mut any_r = false;
    let mut any_s = false;
    let mut found: Vec<Found> = vec![];
    let mut capped = false;
    let mut all_scheds = 0usize;
    let mut ran = 0usize;
    let mut exec_ms: Vec<u64> = vec![];

    // `mandatory`: a wall cap that cuts this batch short is a machinery failure
    let mut do_batch = |run: &mut Run, what: &str, mandatory: bool, scheds: Vec<Sched>, seen: &mut HashSet<String>, capped: &mut bool| -> usize {
        if scheds.is_empty() {
            return 0;
        }
        all_scheds += scheds.len();
        let outs = par_run(id, &pp, &reference, &scheds, Some(deadline));
        if outs.len() < scheds.len() {
            *capped = true;
            if mandatory {
                run.machinery(format!("{}: wall cap hit before the mandatory part finished ({}: {} of {} schedules)", id, what, outs.len(), scheds.len()));
            }
        }
        ran += outs.len();
        exec_ms.extend(outs.iter().map(|o| o.wall_ms));
        account(run, id, &scheds, &outs, seen, &mut any_r, &mut any_s, &mut found);
        outs.len()
    };

    // reference itself counts as one compared execution (ref2 vs ref1)
    {
        let s = if only_bound2 { vec![] } else { vec![Sched::canonical(1)] };
        do_batch(run, "bound 0", true, s, &mut seen, &mut capped);
    }

    // ---- thread-count sweep (canonical order, and fully reversed order)
    let mut sweep = vec![];
    for &t in THREADS.iter() {
        let mut s = Sched::canonical(t);
        s.tag = "threads";
        sweep.push(s);
        let mut s = Sched::canonical(t);
        s.tag = "global";
        s.rdef = rc::Policy::Reverse;
        s.hdef = hc::Order::ReverseInsertion;
        s.class = format!("threads={}:global:Reverse+ReverseInsertion", t);
        sweep.push(s);
    }
    if only_bound2 {
        sweep.clear();
    }
    do_batch(run, "thread sweep", true, sweep, &mut seen, &mut capped);

    // ---- whole-run policies
    let mut glob = global_schedules(1);
    glob.extend(global_schedules(4));
    // at 17 threads only the combined rayon+hashmap policies
    glob.extend(global_schedules(17).into_iter().filter(|s| s.rdef != rc::Policy::Identity && s.hdef != hc::Order::Insertion));
    if only_bound2 {
        glob.clear();
    }
    do_batch(run, "global policies", true, glob, &mut seen, &mut capped);

    // ---- bound 1
    let base4 = run_sched(&subj, &pp, &Sched::canonical(4), &mut cache0, None);
    let p1 = points_of(&ref1);
    let p4 = points_of(&base4);
    let classes1: BTreeSet<String> = p1.iter().map(|p| p.class.clone()).collect();
    let same_shape = shape(&ref1) == shape(&base4);
    let fft_regions = |e: &Exec| e.rt.iter().map(|t| t.regions.iter().filter(|r| r.file.contains("fft/domain.rs")).count()).sum::<usize>();
    let nt_queries: u64 = ref1.rt.iter().map(|t| t.num_threads_queries).sum();

    let full1 = id == "g5";
    let stride: usize = match (tier, id) {
        (Tier::Quick, _) => 23,
        (Tier::Thorough, "g10") => 29,
        _ => 0, // class representatives only (g9 thorough: the rest follows in Part::Rest1)
    };
    // returns (selected for Part::Main, the rest)
    let select = |pts: &[Point], only_new_vs: Option<&BTreeSet<String>>| -> (Vec<Point>, Vec<Point>) {
        let mut seen_class: BTreeSet<String> = BTreeSet::new();
        let mut out = vec![];
        let mut rest = vec![];
        for (i, p) in pts.iter().enumerate() {
            let fresh = seen_class.insert(p.class.clone());
            let is_new = only_new_vs.map(|c| !c.contains(&p.class)).unwrap_or(true);
            let take = if full1 {
                only_new_vs.is_none() || is_new
            } else if only_new_vs.is_some() {
                fresh && is_new
            } else {
                // quick tier: the compress phase re-runs the same preprocessing
                // code as the compile phase; its rayon classes are only strided
                let rep = fresh && !(tier == Tier::Quick && p.phase == 3 && !p.class.contains(":map."));
                rep || (stride > 0 && i % stride == 0)
            };
            if take {
                out.push(p.clone());
            } else {
                rest.push(p.clone());
            }
        }
        (out, rest)
    };
    let (tot1, tot4) = (p1.len(), p4.len());
    let (mut sel1, rest1) = select(&p1, None);
    let (mut sel4, rest4) = if same_shape { (vec![], vec![]) } else { select(&p4, Some(&classes1)) };
    if part == Part::Rest1 {
        sel1 = rest1;
        sel4 = rest4;
    }
    let n_classes1 = classes1.len();
    let classes4: BTreeSet<String> = p4.iter().map(|p| p.class.clone()).collect();
    let covered_classes: BTreeSet<String> = sel1.iter().chain(sel4.iter()).map(|p| p.class.clone()).collect();
    let mut b1 = bound1(&sel1, 1);
    b1.extend(bound1(&sel4, 4));
    if part == Part::Bound2 {
        b1.clear();
    }
    let b1_total = b1.len();
    let b1_ran = do_batch(run, "bound 1", part == Part::Main, b1, &mut seen, &mut capped);
    // every choice point of the circuit (at 1 thread, and at 4 threads those
    // that exist only there) has been deviated with every applicable policy
    let bound1_exhaustive = (full1 || part == Part::Rest1) && part != Part::Bound2 && b1_ran == b1_total;
    if !bound1_exhaustive && part != Part::Bound2 && !(part == Part::Main && tier == Tier::Thorough && id == "g9") {
        run.exhaustive = false;
    }

    // ---- bound 2 (pairs of choice points), thorough tier, small circuit
    let mut b2_total = 0usize;
    let mut b2_ran = 0usize;
    if part == Part::Bound2 {
        // reduced alphabet per choice point: rayon {Reverse | BBeforeA,
        // RotateBy1, Halves (sum)}, hashmap {ReverseInsertion, Shuffle1}
        let keep = |c: &Choice| {
            matches!(
                c,
                Choice::R(rc::Policy::Reverse)
                    | Choice::R(rc::Policy::BBeforeA)
                    | Choice::R(rc::Policy::RotateBy1)
                    | Choice::R(rc::Policy::Halves)
                    | Choice::H(hc::Order::ReverseInsertion)
                    | Choice::H(hc::Order::Shuffle(1))
            )
        };
        let singles: Vec<Dev> = p1
            .iter()
            .flat_map(|p| p.choices.iter().filter(|c| keep(c)).map(move |c| Dev { phase: p.phase, ordinal: p.ordinal, choice: c.clone() }))
            .collect();
        let cls: BTreeMap<(usize, &'static str, u64), String> =
            p1.iter().map(|p| ((p.phase, p.choices[0].space(), p.ordinal), p.class.clone())).collect();
        let mut b2 = vec![];
        for i in 0..singles.len() {
            for j in i + 1..singles.len() {
                let (a, b) = (&singles[i], &singles[j]);
                if a.phase == b.phase && a.ordinal == b.ordinal && a.choice.space() == b.choice.space() {
                    continue;
                }
                let mut s = Sched::canonical(1);
                s.devs = vec![a.clone(), b.clone()];
                s.tag = "bound2";
                s.class = format!(
                    "t1:{}/{}+{}/{}",
                    cls[&(a.phase, a.choice.space(), a.ordinal)],
                    a.choice.name(),
                    cls[&(b.phase, b.choice.space(), b.ordinal)],
                    b.choice.name()
                );
                b2.push(s);
            }
        }
        b2_total = b2.len();
        b2_ran = do_batch(run, "bound 2", false, b2, &mut seen, &mut capped);
        if b2_ran < b2_total {
            run.exhaustive = false;
        }
    }

    report_found(run, &mut found);

    // ---- vacuity gates
    if part == Part::Main {
        run.gate(&format!("{}: >=1 region with >=2 tasks was permuted", id), any_r);
        run.gate(&format!("{}: >=1 hash-map site with >=2 entries was permuted", id), any_s);
    }
    let regions_ref: usize = ref1.rt.iter().map(|t| t.regions.len()).sum();
    let sites_ref: usize = ref1.ht.iter().map(|t| t.sites.len()).sum();
    if subj.log_n >= 9 && !only_bound2 {
        run.gate(&format!("{}: region count > 100 (got {})", id, regions_ref), regions_ref > 100);
        run.gate(
            &format!("{}: parallel FFT branch entered (fft/domain.rs regions {}, current_num_threads queries {})", id, fft_regions(&ref1), nt_queries),
            fft_regions(&ref1) > 0 && nt_queries > 0,
        );
        run.gate(
            &format!("{}: >=4 threads adds parallel butterfly regions ({} -> {})", id, fft_regions(&ref1), fft_regions(&base4)),
            fft_regions(&base4) > fft_regions(&ref1),
        );
    }
    if capped {
        run.capped = Some(format!("wall cap reached while exploring {}", id));
    }

    exec_ms.sort();
    let per_phase: Vec<Value> = (0..4)
        .map(|p| {
            json!({"phase": PHASES[p],
                "regions_t1": ref1.rt.get(p).map(|t| t.regions.len()).unwrap_or(0),
                "regions_t4": base4.rt.get(p).map(|t| t.regions.len()).unwrap_or(0),
                "regions_ge2_tasks_t1": ref1.rt.get(p).map(|t| t.regions.iter().filter(|r| r.tasks >= 2).count()).unwrap_or(0),
                "sites": ref1.ht.get(p).map(|t| t.sites.len()).unwrap_or(0),
                "sites_ge2_entries": ref1.ht.get(p).map(|t| t.sites.iter().filter(|s| s.entries >= 2).count()).unwrap_or(0)})
        })
        .collect();
    let mut kinds: BTreeMap<String, usize> = BTreeMap::new();
    for t in &ref1.rt {
        for r in &t.regions {
            *kinds.entry(r.kind.name().to_string()).or_insert(0) += 1;
        }
    }
    let rep = json!({
        "circuit": id,
        "part": match part { Part::Main => "bound 0, thread sweep, global policies, bound 1 on selected choice points",
                             Part::Rest1 => "bound 1 on all remaining choice points (1 and 4 threads)",
                             Part::Bound2 => "bound 2 (pairs of choice points)" },
        "constraints": reference.constraints,
        "domain_log2": subj.log_n,
        "rng_draws": reference.rng_draws,
        "regions_reference": regions_ref,
        "regions_at_4_threads": base4.rt.iter().map(|t| t.regions.len()).sum::<usize>(),
        "fft_domain_regions_t1": fft_regions(&ref1),
        "fft_domain_regions_t4": fft_regions(&base4),
        "current_num_threads_queries": nt_queries,
        "hashmap_sites_reference": sites_ref,
        "region_kinds": kinds,
        "per_phase": per_phase,
        "choice_points_t1": tot1,
        "choice_points_t4": tot4,
        "choice_point_classes_t1": n_classes1,
        "choice_point_classes_t4_new": classes4.difference(&classes1).count(),
        "classes_covered_by_bound1": covered_classes.len(),
        "bound1": {"points_selected_t1": sel1.len(), "points_selected_t4": sel4.len(), "schedules": b1_total, "ran": b1_ran,
                   "full": bound1_exhaustive,
                   "selection": if part == Part::Rest1 { "every choice point not taken by the main part, at 1 and at 4 threads, x every applicable policy".to_string() }
                                else if full1 { "every choice point x every applicable policy (at 1 thread; at 4 threads those of classes absent at 1 thread)".to_string() }
                                else { format!("one representative per (phase,kind,location,size) class + every {}th choice point, x every applicable policy", stride) }},
        "bound2": {"schedules": b2_total, "ran": b2_ran},
        "schedules_generated": all_scheds,
        "schedules_ran": ran,
        "reference_exec_ms": ref_ms,
        "reference_phase_ms": ref1.phase_ms,
        "exec_ms_median": exec_ms.get(exec_ms.len() / 2).copied().unwrap_or(0),
        "exec_ms_max": exec_ms.last().copied().unwrap_or(0),
        "setup_s": t_setup,
        "wall_s": t_start.elapsed().as_secs_f64(),
        "hashes": reference.hash_line(id),
    });
    eprintln!(
        "[C18-sched] {}: constraints={} regions(t1)={} regions(t4)={} sites={} points={} schedules={} ran={} wall={:.1}s",
        id,
        reference.constraints,
        regions_ref,
        base4.rt.iter().map(|t| t.regions.len()).sum::<usize>(),
        sites_ref,
        tot1,
        all_scheds,
        ran,
        t_start.elapsed().as_secs_f64()
    );
    if run.samples.len() < 10 {
        if let Some(p) = sel1.iter().find(|p| p.class.contains("fft/domain.rs")).or(sel1.first()) {
            run.sample(json!({"circuit": id, "choice_point": p.class, "phase": PHASES[p.phase], "ordinal": p.ordinal,
                "policies": p.choices.iter().map(|c| c.name()).collect::<Vec<_>>()}));
        }
        if let Some(p) = sel1.iter().find(|p| p.class.contains("map.")) {
            run.sample(json!({"circuit": id, "choice_point": p.class, "phase": PHASES[p.phase], "ordinal": p.ordinal,
                "policies": p.choices.iter().map(|c| c.name()).collect::<Vec<_>>()}));
        }
    }
    Some(SubjectReport { json: rep })
}

/// Static scan behind the E5 soundness note: additions of shared mutable
/// state reachable from tasks weaken the task-granularity assumption. Only
/// recorded, never a verdict.
fn interior_state_scan() -> Value {
    let root = std::env::var("VERIF_REPO").unwrap_or_else(|_| "/repo".to_string());
    let mut hits: Vec<String> = vec![];
    let mut stack = vec![std::path::PathBuf::from(format!("{}/src", root))];
    let tokens = ["static ", "Cell<", "Atomic", "Mutex", "unsafe ", "thread_local"];
    while let Some(d) = stack.pop() {
        let Ok(rd) = std::fs::read_dir(&d) else { continue };
        let mut entries: Vec<_> = rd.flatten().map(|e| e.path()).collect();
        entries.sort();
        for p in entries {
            if p.is_dir() {
                stack.push(p);
            } else if p.extension().map(|e| e == "rs").unwrap_or(false) {
                let name = p.to_string_lossy().to_string();
                if name.contains("rkyv") {
                    continue;
                }
                let Ok(s) = std::fs::read_to_string(&p) else { continue };
                for (i, line) in s.lines().enumerate() {
                    let t = line.trim_start();
                    if t.starts_with("//") {
                        continue;
                    }
                    if tokens.iter().any(|k| t.contains(k)) && !t.contains("&'static") {
                        hits.push(format!("{}:{}", name.trim_start_matches(&root), i + 1));
                    }
                }
            }
        }
    }
    hits.sort();
    json!({"root": root, "hits": hits.len(), "where": hits.iter().take(60).collect::<Vec<_>>()})
}

pub fn main(tier: Tier, replay: Option<Value>) -> i32 {
    let mut run = Run::new("C18", tier, "model_checking");
    if let Some(r) = replay {
        return replay_main(run, r);
    }
    run.rule = "distinct_nontrivial = distinct (circuit, schedule) executions in which at least one parallel region with >=2 tasks ran in a non-canonical order / reduction shape, or one hash-map iteration with >=2 entries was yielded in a non-insertion order, and whose 7 artefacts (prover, verifier, proof, public inputs, compressed circuit, keys compiled from it) were compared byte-for-byte with the canonical schedule".to_string();
    let ids: Vec<&str> = match tier {
        Tier::Quick => subjects::QUICK.to_vec(),
        Tier::Thorough => subjects::THOROUGH.to_vec(),
    };
    let cap_s: u64 = std::env::var("VERIF_CAP_S").ok().and_then(|s| s.parse().ok()).unwrap_or(match tier {
        Tier::Quick => 600,
        Tier::Thorough => 7200,
    });
    let deadline = Instant::now() + Duration::from_secs(cap_s);
    let mut reports = vec![];
    for id in &ids {
        if Instant::now() > deadline {
            run.capped = Some(format!("wall cap reached before {}", id));
            run.machinery(format!("cap hit before the mandatory part finished (circuit {} not explored)", id));
            break;
        }
        if let Some(r) = explore_subject(&mut run, tier, id, deadline, Part::Main) {
            reports.push(r.json);
        }
    }
    if tier == Tier::Thorough {
        for (id, part) in [("g9", Part::Rest1), ("g5", Part::Bound2)] {
            if Instant::now() > deadline {
                run.capped = Some(format!("wall cap reached before {:?} of {}", part, id));
                run.exhaustive = false;
            } else if let Some(r) = explore_subject(&mut run, tier, id, deadline, part) {
                reports.push(r.json);
            }
        }
    }
    run.bound("circuits", json!(ids));
    run.bound("thread_counts", json!(THREADS));
    run.bound("phases", json!(PHASES));
    run.bound("rayon_policies", json!(rc::Policy::ALL.iter().map(|p| p.name()).collect::<Vec<_>>()));
    run.bound("hashmap_orders", json!(hc::Order::ALL.iter().map(|p| p.name()).collect::<Vec<_>>()));
    run.bound("deviation_bound", json!(match tier { Tier::Quick => "0, thread sweep, global policies, 1 (g5 full; g9 class representatives + stride)",
        Tier::Thorough => "0, thread sweep, global policies, 1 (g5 full; g9, g10, g12 class representatives [g10 + stride]); then, optional under the wall cap: 1 on all remaining choice points of g9, 2 (g5, reduced alphabet)" }));
    run.bound("wall_cap_s", json!(cap_s));
    run.extra.insert("per_circuit".into(), json!(reports));
    run.extra.insert("interior_state_scan".into(), interior_state_scan());
    run.extra.insert("engine".into(), json!("E5 rayon shim (virtual scheduler) + E5b hashbrown shim, workspace /verif/harness-sched"));
    run.assumptions = vec![
        "task-granular schedules: a parallel region's tasks are atomic; interleavings inside a task are not explored (E5 soundness note; interior_state_scan lists the places where shared mutable state could weaken this)".into(),
        "the shims implement rayon's/hashbrown's documented sequential semantics (collect preserves index order, zip truncates to the shorter side, sum is a tree reduction of Sum impls); conformance with the real runtime is the main harness's free-running pass, compared through the key-hash lines".into(),
        "ordinals of a bound-1/2 deviation are taken from the canonical trace; a deviation that reorders tasks containing nested regions renumbers the nested regions, which is still a deterministic, replayable schedule".into(),
    ];
    finish_as_sched(run)
}

/// `ev::Run` names the evidence file after `id`; this check is the schedule
/// part of C18, whose main evidence file belongs to the main harness: write
/// `C18-sched.json` with property_id "C18".
fn finish_as_sched(mut run: Run) -> i32 {
    run.id = "C18-sched".to_string();
    let code = run.finish();
    let path = format!("{}/evidence/C18-sched.json", crate::ev::verif_dir());
    if let Ok(s) = std::fs::read_to_string(&path) {
        if let Ok(mut v) = serde_json::from_str::<Value>(&s) {
            v["property_id"] = json!("C18");
            v["part"] = json!("sched");
            let _ = std::fs::write(&path, serde_json::to_string_pretty(&v).unwrap());
        }
    }
    code
}

fn replay_main(mut run: Run, r: Value) -> i32 {
    run.set_replay_mode();
    let case = r.get("case").cloned().unwrap_or(r.clone());
    let Some(id) = case.get("circuit").and_then(|x| x.as_str()) else {
        run.machinery("replay: no circuit".into());
        return run.finish();
    };
    let sched = match case.get("schedule").ok_or("schedule".to_string()).and_then(Sched::from_json) {
        Ok(s) => s,
        Err(e) => {
            run.machinery(format!("replay: bad schedule ({})", e));
            return run.finish();
        }
    };
    let subj = subjects::subject(id);
    let pp = subjects::pp_for(&subj);
    let mut cache = Cache::default();
    let reference = run_sched(&subj, &pp, &Sched::canonical(1), &mut cache, None);
    let Ok(refart) = reference.art else {
        run.machinery("replay: reference execution failed".into());
        return run.finish();
    };
    let a = run_sched(&subj, &pp, &sched, &mut cache, Some(&refart));
    let b = run_sched(&subj, &pp, &sched, &mut cache, Some(&refart));
    if a.art != b.art || shape(&a) != shape(&b) {
        run.machinery("replay: the schedule did not reproduce identical observations".into());
        return run.finish();
    }
    let diff = compare(&refart, &a);
    eprintln!("replay {} {}: differs = {:?}", id, sched.key(), diff);
    if !diff.is_empty() {
        let first = diff[0].split(':').next().unwrap_or("diff").to_string();
        run.violation(
            &format!("sched:{}:{}:{}", id, first, sched.class),
            &format!("artefacts differ from the canonical schedule: {:?}", diff),
            json!({"circuit": id, "schedule": sched.to_json(), "differs": diff}),
        );
    }
    run.finish()
}
