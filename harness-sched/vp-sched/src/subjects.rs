//! C18 subjects: circuits, labels and RNG scripts shared by the schedule
//! explorer (workspace #2, shims) and the main harness (real rayon /
//! hashbrown), so that the reference bytes of the two builds can be compared
//! through their FNV hashes.
//!
//! Uses only dusk-plonk's public API plus `crate::prog::Prog`,
//! `crate::rng::ScriptedRng`, `crate::fe`, `crate::setup` (the files under
//! /verif/harness/src; include this file with `#[path]`).

#![allow(dead_code)]

use dusk_bytes::Serializable;
use dusk_jubjub::{JubJubScalar, GENERATOR_EXTENDED};
use dusk_plonk::prelude::*;

use crate::fe::{fe, fnv, Fe, Rho};
use crate::prog::Prog;
use crate::rng::ScriptedRng;

/// Subject ids by tier. `g5` = domain size 2^5 (no parallel FFT anywhere),
/// `g9` = 2^9 (the 8n quotient domain reaches the 2^12 parallel-FFT switch),
/// `g10`, `g12` = 2^10 / 2^12 (n-sized FFTs of g12 are parallel too).
pub const QUICK: [&str; 2] = ["g5", "g9"];
pub const THOROUGH: [&str; 5] = ["g5", "g9", "g10", "g12", "f10"];
/// `fK`: the same circuit grown until its constraints FILL the 2^K domain exactly
/// (no padding rows: the last rows of every n-sized vector carry real data, so a
/// chunking / remainder mistake at the end of a parallel region cannot hide in padding).
/// Used by the thread-count and fresh-process parts, and by the explorer in thorough.
pub const POOLS_QUICK: [&str; 4] = ["g5", "g9", "f9", "f10"];
pub const POOLS_THOROUGH: [&str; 8] = ["g5", "g9", "g10", "g12", "f9", "f10", "f11", "f12"];

pub struct Subject {
    pub id: &'static str,
    /// log2 of the evaluation-domain size the circuit must compile to
    pub log_n: u32,
    pub label: Vec<u8>,
    pub rng_stream: u64,
    pub prog: Prog,
}

pub fn subject(id: &str) -> Subject {
    let (sid, log_n, stream): (&'static str, u32, u64) = match id {
        "g5" => ("g5", 5, 5),
        "g9" => ("g9", 9, 9),
        "g10" => ("g10", 10, 10),
        "g12" => ("g12", 12, 12),
        "f9" => ("f9", 9, 19),
        "f10" => ("f10", 10, 20),
        "f11" => ("f11", 11, 21),
        "f12" => ("f12", 12, 22),
        _ => panic!("unknown subject {}", id),
    };
    let seed = crate::fe::seed();
    let full = sid.starts_with('f');
    let prog = Prog::new(move |c| build(c, log_n, seed, full));
    Subject { id: sid, log_n, label: format!("vp-c18-{}", sid).into_bytes(), rng_stream: stream, prog }
}

/// The circuit: public inputs of several kinds (append_public, a PI on a
/// multiplication gate, assert_equal_constant with PI, and — from 2^10 up — a
/// public point), witnesses shared between many gates (permutation classes of
/// very different sizes), range gates, from 2^9 up logic gates (one logic
/// gadget costs ~173 constraints, so none fits the 2^5 circuit), from 2^10 up
/// a fixed-base scalar multiplication (~331 constraints) and a point addition;
/// then an arithmetic chain up to `2^log_n - 6 - 3` constraints, with a PI
/// every 23rd filler gate (every 5th in the 2^5 circuit).
///
/// Note: the public API always inserts public-input rows in ascending row
/// order (`public_inputs.insert(current_row, pi)`), so "insertion order" of
/// that map is the sorted order; unsorted orders exist only through the
/// iteration-order policies of the hashbrown shim.
fn build(c: &mut Composer, log_n: u32, seed: u64, full: bool) -> Result<(), Error> {
    // the two closing gates come on top of `target`
    let target = if full { (1usize << log_n) - 2 } else { (1usize << log_n) - 6 - 3 };
    let mut rho = Rho::new(seed, 1800 + log_n as u64);

    let p0 = c.append_public(fe(7)); // PI
    let x = c.append_witness(rho.next_fe());
    let y = c.append_witness(rho.next_fe());
    let s = c.gate_add(Constraint::new().left(1).right(1).a(x).b(y));
    // c = x*y + 11 (PI on a multiplication gate)
    let m = c.gate_mul(Constraint::new().mult(1).a(x).b(y).public(fe(11)));

    // selector coefficients from the compressor's pre-agreed table (Hades MDS entries 1/9 .. 1/13):
    // their indices in the compressed description come from a table built at run time
    for k in 9u64..=13 {
        let m = crate::fe::inv(fe(k));
        c.gate_add(Constraint::new().left(m).right(1).constant(m).a(x).b(y));
    }
    // range gate
    let r = c.append_witness(fe(0xb5));
    c.component_range_bits::<8>(r);

    if log_n >= 9 {
        // logic gates (about 173 constraints each: the gadget binds its
        // accumulators to the inputs through a truncation split)
        let a = c.append_witness(fe(0xc));
        let b = c.append_witness(fe(0x5));
        let xo = c.append_logic_xor::<2>(a, b);
        let an = c.append_logic_and::<2>(a, b);
        c.assert_equal_constant(xo, fe(9), None);
        c.assert_equal_constant(an, fe(1), Some(fe(3))); // PI: 4 = 1 + 3
        c.component_range_bits::<64>(r);
    } else {
        c.assert_equal_constant(r, fe(0xb0), Some(fe(5))); // PI: 0xb5 = 0xb0 + 5
    }

    if log_n >= 10 {
        // fixed-base and variable-base group gates, public point (2 PIs)
        let k = JubJubScalar::from(0xdead_beef_cafe_u64);
        let kw = c.append_witness(k);
        let p = c.component_mul_generator(kw, GENERATOR_EXTENDED)?;
        let q = c.component_add_point(p, p);
        let expect = GENERATOR_EXTENDED * k + GENERATOR_EXTENDED * k;
        c.assert_equal_public_point(q.into(), expect)?;
    }

    // arithmetic chain; x, y, p0 are shared by all of it
    let mut acc = c.gate_add(Constraint::new().left(1).right(1).a(s).b(m).constant(fe(3)));
    let mut k = 0u64;
    while c.constraints() < target {
        k += 1;
        acc = match k % 4 {
            0 => c.gate_mul(Constraint::new().mult(1).a(acc).b(y).constant(fe(k))),
            1 => c.gate_add(Constraint::new().left(1).right(2).a(acc).b(x)),
            2 => c.gate_add(Constraint::new().left(1).right(1).fourth(1).a(acc).b(p0).d(x)),
            _ => c.gate_mul(Constraint::new().mult(3).a(acc).b(acc)),
        };
        if k % (if log_n < 9 { 5 } else { 23 }) == 0 && c.constraints() < target {
            // acc' = acc + k (PI)
            acc = c.gate_add(Constraint::new().left(1).a(acc).public(fe(k)));
        }
    }
    // close the chain with a public input equal to its value
    let end = c[acc];
    let pe = c.append_public(end);
    c.assert_equal(pe, acc);
    Ok(())
}

pub fn rng(s: &Subject) -> ScriptedRng {
    ScriptedRng::base(crate::fe::seed(), s.rng_stream)
}

/// Public parameters for a subject (seeded setup shared with the main harness).
pub fn pp_for(s: &Subject) -> std::sync::Arc<PublicParameters> {
    // a domain-filling circuit needs commit-key capacity for (constraints + 6).next_power_of_two()
    crate::setup::pp((1usize << s.log_n) << if s.id.starts_with('f') { 1 } else { 0 })
}

#[derive(Clone, PartialEq, Eq, Debug, Default)]
pub struct Artefacts {
    pub prover: Vec<u8>,
    pub verifier: Vec<u8>,
    pub proof: Vec<u8>,
    pub public_inputs: Vec<u8>,
    pub compressed: Vec<u8>,
    pub c_prover: Vec<u8>,
    pub c_verifier: Vec<u8>,
    pub verified: bool,
    pub constraints: usize,
    pub rng_draws: usize,
}

impl Artefacts {
    pub fn parts(&self) -> [(&'static str, &[u8]); 7] {
        [
            ("prover", &self.prover),
            ("verifier", &self.verifier),
            ("proof", &self.proof),
            ("public_inputs", &self.public_inputs),
            ("compressed", &self.compressed),
            ("c_prover", &self.c_prover),
            ("c_verifier", &self.c_verifier),
        ]
    }
    /// `key-hash circuit=<id> prover=<h> verifier=<h> proof=<h>` line.
    pub fn hash_line(&self, id: &str) -> String {
        format!(
            "key-hash circuit={} prover={:016x} verifier={:016x} proof={:016x} pi={:016x} compressed={:016x} cprover={:016x} cverifier={:016x}",
            id,
            fnv(&self.prover),
            fnv(&self.verifier),
            fnv(&self.proof),
            fnv(&self.public_inputs),
            fnv(&self.compressed),
            fnv(&self.c_prover),
            fnv(&self.c_verifier)
        )
    }
}

pub fn pi_bytes(pis: &[Fe]) -> Vec<u8> {
    let mut v = Vec::with_capacity(pis.len() * 32);
    for p in pis {
        v.extend_from_slice(&p.to_bytes());
    }
    v
}

// ---- the four phases of one execution ---------------------------------

pub fn phase_compile(s: &Subject, pp: &PublicParameters) -> Result<(Prover, Verifier), String> {
    Compiler::compile_with_circuit(pp, &s.label, &s.prog).map_err(|e| format!("compile: {:?}", e))
}

/// Returns the proof, the public inputs and the number of RNG draws.
pub fn phase_prove(s: &Subject, prover: &Prover) -> Result<(Proof, Vec<Fe>, usize), String> {
    let mut rng = rng(s);
    let (proof, pis) = prover.prove(&mut rng, &s.prog).map_err(|e| format!("prove: {:?}", e))?;
    Ok((proof, pis, rng.pos))
}

pub fn phase_verify(verifier: &Verifier, proof: &Proof, pis: &[Fe]) -> bool {
    verifier.verify(proof, pis).is_ok()
}

/// `Circuit::compress()` + `Compiler::compile_with_compressed`: returns the
/// compressed description and the bytes of the keys compiled from it.
pub fn phase_compress(s: &Subject, pp: &PublicParameters) -> Result<(Vec<u8>, Vec<u8>, Vec<u8>), String> {
    s.prog.install_default();
    let compressed = Prog::compress().map_err(|e| format!("compress: {:?}", e))?;
    let (cp, cv) =
        Compiler::compile_with_compressed(pp, &s.label, &compressed).map_err(|e| format!("compile_with_compressed: {:?}", e))?;
    Ok((compressed, cp.to_bytes(), cv.to_bytes()))
}

/// All four phases in order. `between(phase)` is called before each phase
/// ("compile", "prove", "verify", "compress") and once at the end ("done");
/// the main harness passes a no-op.
pub fn execute(s: &Subject, pp: &PublicParameters, between: &mut dyn FnMut(&'static str)) -> Result<Artefacts, String> {
    let mut out = Artefacts::default();

    between("compile");
    let (prover, verifier) = phase_compile(s, pp)?;
    out.prover = prover.to_bytes();
    out.verifier = verifier.to_bytes();
    out.constraints = s.prog.last_snapshot().map(|sn| sn.gates.len()).unwrap_or(0);

    between("prove");
    let (proof, pis, draws) = phase_prove(s, &prover)?;
    out.rng_draws = draws;
    out.proof = proof.to_bytes().to_vec();
    out.public_inputs = pi_bytes(&pis);

    between("verify");
    out.verified = phase_verify(&verifier, &proof, &pis);

    between("compress");
    let (c, cp, cv) = phase_compress(s, pp)?;
    out.compressed = c;
    out.c_prover = cp;
    out.c_verifier = cv;
    between("done");
    Ok(out)
}
