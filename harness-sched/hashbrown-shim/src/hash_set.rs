//! `HashSet` on top of the shim's `HashMap<T, ()>`: every iteration goes through the
//! map's iteration site, so the controller chooses its order as well.

use std::hash::Hash;

use crate::hash_map::{DefaultHashBuilder, HashMap};

#[derive(Clone)]
pub struct HashSet<T, S = DefaultHashBuilder> {
    map: HashMap<T, (), S>,
}

impl<T> HashSet<T, DefaultHashBuilder> {
    pub fn new() -> Self {
        HashSet { map: HashMap::new() }
    }
    pub fn with_capacity(capacity: usize) -> Self {
        HashSet { map: HashMap::with_capacity(capacity) }
    }
}

impl<T, S> Default for HashSet<T, S> {
    fn default() -> Self {
        HashSet { map: HashMap::default() }
    }
}

impl<T, S> HashSet<T, S> {
    pub fn len(&self) -> usize {
        self.map.len()
    }
    pub fn is_empty(&self) -> bool {
        self.map.is_empty()
    }
    pub fn clear(&mut self) {
        self.map.clear()
    }
    #[track_caller]
    pub fn iter(&self) -> impl Iterator<Item = &T> + '_ {
        self.map.keys()
    }
}

impl<T: Eq + Hash, S> HashSet<T, S> {
    pub fn insert(&mut self, value: T) -> bool {
        self.map.insert(value, ()).is_none()
    }
    pub fn contains<Q>(&self, value: &Q) -> bool
    where
        T: std::borrow::Borrow<Q>,
        Q: Hash + Eq + ?Sized,
    {
        self.map.contains_key(value)
    }
}

impl<T, S> IntoIterator for HashSet<T, S> {
    type Item = T;
    type IntoIter = std::vec::IntoIter<T>;
    #[track_caller]
    fn into_iter(self) -> Self::IntoIter {
        self.map.into_iter().map(|(k, _)| k).collect::<Vec<_>>().into_iter()
    }
}

impl<'a, T, S> IntoIterator for &'a HashSet<T, S> {
    type Item = &'a T;
    type IntoIter = std::vec::IntoIter<&'a T>;
    #[track_caller]
    fn into_iter(self) -> Self::IntoIter {
        self.map.keys().collect::<Vec<_>>().into_iter()
    }
}

impl<T: Eq + Hash, S> FromIterator<T> for HashSet<T, S> {
    fn from_iter<I: IntoIterator<Item = T>>(iter: I) -> Self {
        let mut s = HashSet::default();
        for x in iter {
            s.insert(x);
        }
        s
    }
}

impl<T: Eq + Hash, S> Extend<T> for HashSet<T, S> {
    fn extend<I: IntoIterator<Item = T>>(&mut self, iter: I) {
        for x in iter {
            self.insert(x);
        }
    }
}
