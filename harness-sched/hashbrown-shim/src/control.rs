//! Controller of hash-map iteration order. All state is thread-local.
//!
//! Iteration SITES are numbered 0,1,2,… in execution order from the last
//! [`begin`], in an ordinal space of their own (independent of the rayon
//! shim's region ordinals). A site is one call of `keys()/values()/iter()/
//! iter_mut()/values_mut()/into_iter()` (or `Debug` formatting) **that yields
//! at least one element request**: the ordinal is assigned at the first
//! `next()`, so `map.keys().len()` — which dusk-plonk evaluates once per
//! allocated witness — is not a site.

use std::cell::RefCell;
use std::collections::HashMap as StdHashMap;
use std::panic::Location;

#[derive(Clone, Copy, Debug, PartialEq, Eq, Hash, PartialOrd, Ord)]
pub enum Order {
    Insertion,
    ReverseInsertion,
    AscendingKeyHash,
    DescendingKeyHash,
    /// seeded Fisher–Yates shuffle σ1..σ4 of the insertion order
    Shuffle(u8),
}

impl Order {
    pub const ALL: [Order; 8] = [
        Order::Insertion,
        Order::ReverseInsertion,
        Order::AscendingKeyHash,
        Order::DescendingKeyHash,
        Order::Shuffle(1),
        Order::Shuffle(2),
        Order::Shuffle(3),
        Order::Shuffle(4),
    ];
    pub fn name(&self) -> String {
        match self {
            Order::Insertion => "Insertion".into(),
            Order::ReverseInsertion => "ReverseInsertion".into(),
            Order::AscendingKeyHash => "AscendingKeyHash".into(),
            Order::DescendingKeyHash => "DescendingKeyHash".into(),
            Order::Shuffle(k) => format!("Shuffle{}", k),
        }
    }
    pub fn from_name(s: &str) -> Option<Order> {
        Order::ALL.iter().copied().find(|p| p.name() == s)
    }
}

#[derive(Clone, Copy, Debug, PartialEq, Eq, Hash, PartialOrd, Ord)]
pub enum SiteKind {
    Keys,
    Values,
    Iter,
    IterMut,
    ValuesMut,
    IntoIter,
    Debug,
}
impl SiteKind {
    pub fn name(&self) -> &'static str {
        match self {
            SiteKind::Keys => "keys",
            SiteKind::Values => "values",
            SiteKind::Iter => "iter",
            SiteKind::IterMut => "iter_mut",
            SiteKind::ValuesMut => "values_mut",
            SiteKind::IntoIter => "into_iter",
            SiteKind::Debug => "debug",
        }
    }
}

#[derive(Clone, Debug)]
pub struct Schedule {
    pub default: Order,
    pub overrides: Vec<(u64, Order)>,
}
impl Default for Schedule {
    fn default() -> Self {
        Schedule { default: Order::Insertion, overrides: vec![] }
    }
}

#[derive(Clone, Debug)]
pub struct Site {
    pub ordinal: u64,
    pub kind: SiteKind,
    pub entries: usize,
    pub file: &'static str,
    pub line: u32,
    pub order: Order,
    /// the yielded order differs from insertion order (needs >= 2 entries)
    pub permuted: bool,
}

#[derive(Clone, Debug, Default)]
pub struct Trace {
    pub sites: Vec<Site>,
    pub unused_overrides: Vec<u64>,
}

struct State {
    default: Order,
    overrides: StdHashMap<u64, Order>,
    used: Vec<u64>,
    next: u64,
    record: bool,
    sites: Vec<Site>,
}

thread_local! {
    static STATE: RefCell<State> = RefCell::new(State {
        default: Order::Insertion,
        overrides: StdHashMap::new(),
        used: vec![],
        next: 0,
        record: false,
        sites: vec![],
    });
}

pub fn begin(s: &Schedule) {
    STATE.with(|st| {
        let mut st = st.borrow_mut();
        st.default = s.default;
        st.overrides = s.overrides.iter().copied().collect();
        st.used.clear();
        st.next = 0;
        st.record = true;
        st.sites.clear();
    });
}

pub fn end() -> Trace {
    STATE.with(|st| {
        let mut st = st.borrow_mut();
        let sites = std::mem::take(&mut st.sites);
        let mut unused: Vec<u64> = st.overrides.keys().copied().filter(|k| !st.used.contains(k)).collect();
        unused.sort();
        st.default = Order::Insertion;
        st.overrides.clear();
        st.used.clear();
        st.next = 0;
        st.record = false;
        Trace { sites, unused_overrides: unused }
    })
}

fn splitmix(x: &mut u64) -> u64 {
    *x = x.wrapping_add(0x9e37_79b9_7f4a_7c15);
    let mut z = *x;
    z = (z ^ (z >> 30)).wrapping_mul(0xbf58_476d_1ce4_e5b9);
    z = (z ^ (z >> 27)).wrapping_mul(0x94d0_49bb_1331_11eb);
    z ^ (z >> 31)
}

/// The order (indices into the insertion-ordered entry vector) `order`
/// yields for entries with these key hashes.
pub fn permutation(order: Order, hashes: &[u64]) -> Vec<u32> {
    let n = hashes.len();
    let mut idx: Vec<u32> = (0..n as u32).collect();
    match order {
        Order::Insertion => {}
        Order::ReverseInsertion => idx.reverse(),
        Order::AscendingKeyHash => idx.sort_by_key(|&i| (hashes[i as usize], i)),
        Order::DescendingKeyHash => idx.sort_by_key(|&i| (std::cmp::Reverse(hashes[i as usize]), i)),
        Order::Shuffle(k) => {
            let mut s = 0x5eed_0000_0000_0000u64 ^ ((k as u64) << 32) ^ n as u64;
            for i in (1..n).rev() {
                let j = (splitmix(&mut s) % (i as u64 + 1)) as usize;
                idx.swap(i, j);
            }
        }
    }
    idx
}

/// Called at the first `next()` of an iterator: assigns the site ordinal and
/// returns the order to yield (None = insertion order, no index vector).
pub(crate) fn enter_site(kind: SiteKind, hashes: &[u64], loc: &'static Location<'static>) -> Option<Vec<u32>> {
    STATE.with(|st| {
        let mut st = st.borrow_mut();
        let ordinal = st.next;
        st.next += 1;
        let order = match st.overrides.get(&ordinal) {
            Some(&o) => {
                st.used.push(ordinal);
                o
            }
            None => st.default,
        };
        let perm = if order == Order::Insertion || hashes.len() < 2 { None } else { Some(permutation(order, hashes)) };
        let permuted = perm.as_ref().map(|p| p.iter().enumerate().any(|(i, &j)| i as u32 != j)).unwrap_or(false);
        if st.record {
            st.sites.push(Site {
                ordinal,
                kind,
                entries: hashes.len(),
                file: loc.file(),
                line: loc.line(),
                order,
                permuted,
            });
        }
        if permuted {
            perm
        } else {
            None
        }
    })
}
