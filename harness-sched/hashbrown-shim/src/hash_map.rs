use crate::control::{self, SiteKind};
use std::borrow::Borrow;
use std::collections::HashMap as StdHashMap;
use std::fmt;
use std::hash::{BuildHasher, Hash, Hasher};
use std::marker::PhantomData;
use std::panic::Location;

/// Fixed SipHash-1-3 with zero keys: the same hash in every process, so
/// `AscendingKeyHash` / `DescendingKeyHash` are replayable orders.
#[derive(Clone, Copy, Default, Debug)]
pub struct DefaultHashBuilder;
impl BuildHasher for DefaultHashBuilder {
    type Hasher = std::collections::hash_map::DefaultHasher;
    #[allow(deprecated)]
    fn build_hasher(&self) -> Self::Hasher {
        std::collections::hash_map::DefaultHasher::new()
    }
}

fn hash_of<Q: Hash + ?Sized>(k: &Q) -> u64 {
    let mut h = DefaultHashBuilder.build_hasher();
    k.hash(&mut h);
    h.finish()
}

#[derive(Clone)]
pub struct HashMap<K, V, S = DefaultHashBuilder> {
    entries: Vec<(K, V)>,
    hashes: Vec<u64>,
    index: StdHashMap<u64, Vec<u32>>,
    _s: PhantomData<S>,
}

impl<K, V> HashMap<K, V, DefaultHashBuilder> {
    pub fn new() -> Self {
        Self::with_capacity(0)
    }
    pub fn with_capacity(capacity: usize) -> Self {
        // the requested capacity can be huge (`constraints * 4`); like the
        // real table it is only a hint, the vectors grow on demand
        let c = capacity.min(1 << 16);
        HashMap { entries: Vec::with_capacity(c), hashes: Vec::with_capacity(c), index: StdHashMap::new(), _s: PhantomData }
    }
}

impl<K, V, S> Default for HashMap<K, V, S> {
    fn default() -> Self {
        HashMap { entries: vec![], hashes: vec![], index: StdHashMap::new(), _s: PhantomData }
    }
}

impl<K, V, S> HashMap<K, V, S> {
    pub fn len(&self) -> usize {
        self.entries.len()
    }
    pub fn is_empty(&self) -> bool {
        self.entries.is_empty()
    }
    pub fn clear(&mut self) {
        self.entries.clear();
        self.hashes.clear();
        self.index.clear();
    }
    #[track_caller]
    pub fn keys(&self) -> Keys<'_, K, V> {
        Keys { inner: self.raw_iter(SiteKind::Keys, Location::caller()) }
    }
    #[track_caller]
    pub fn values(&self) -> Values<'_, K, V> {
        Values { inner: self.raw_iter(SiteKind::Values, Location::caller()) }
    }
    #[track_caller]
    pub fn iter(&self) -> Iter<'_, K, V> {
        self.raw_iter(SiteKind::Iter, Location::caller())
    }
    #[track_caller]
    pub fn iter_mut(&mut self) -> IterMut<'_, K, V> {
        self.raw_iter_mut(SiteKind::IterMut, Location::caller())
    }
    #[track_caller]
    pub fn values_mut(&mut self) -> ValuesMut<'_, K, V> {
        ValuesMut { inner: self.raw_iter_mut(SiteKind::ValuesMut, Location::caller()) }
    }
    fn raw_iter(&self, kind: SiteKind, loc: &'static Location<'static>) -> Iter<'_, K, V> {
        Iter { entries: &self.entries, hashes: &self.hashes, kind, loc, order: None, started: false, pos: 0 }
    }
    fn raw_iter_mut(&mut self, kind: SiteKind, loc: &'static Location<'static>) -> IterMut<'_, K, V> {
        IterMut {
            slots: self.entries.iter_mut().map(|(k, v)| Some((&*k, v))).collect(),
            hashes: &self.hashes,
            kind,
            loc,
            order: None,
            started: false,
            pos: 0,
        }
    }
}

impl<K: Eq + Hash, V, S> HashMap<K, V, S> {
    fn find<Q>(&self, k: &Q) -> Option<usize>
    where
        K: Borrow<Q>,
        Q: Hash + Eq + ?Sized,
    {
        let h = hash_of(k);
        self.index.get(&h)?.iter().map(|&i| i as usize).find(|&i| self.entries[i].0.borrow() == k)
    }
    fn push(&mut self, k: K, v: V) -> usize {
        let h = hash_of(&k);
        let i = self.entries.len();
        self.entries.push((k, v));
        self.hashes.push(h);
        self.index.entry(h).or_default().push(i as u32);
        i
    }
    pub fn insert(&mut self, k: K, v: V) -> Option<V> {
        match self.find(&k) {
            Some(i) => Some(std::mem::replace(&mut self.entries[i].1, v)),
            None => {
                self.push(k, v);
                None
            }
        }
    }
    pub fn get<Q>(&self, k: &Q) -> Option<&V>
    where
        K: Borrow<Q>,
        Q: Hash + Eq + ?Sized,
    {
        self.find(k).map(|i| &self.entries[i].1)
    }
    pub fn get_mut<Q>(&mut self, k: &Q) -> Option<&mut V>
    where
        K: Borrow<Q>,
        Q: Hash + Eq + ?Sized,
    {
        self.find(k).map(|i| &mut self.entries[i].1)
    }
    pub fn contains_key<Q>(&self, k: &Q) -> bool
    where
        K: Borrow<Q>,
        Q: Hash + Eq + ?Sized,
    {
        self.find(k).is_some()
    }
    pub fn entry(&mut self, key: K) -> Entry<'_, K, V, S> {
        match self.find(&key) {
            Some(i) => Entry::Occupied(OccupiedEntry { map: self, pos: i }),
            None => Entry::Vacant(VacantEntry { map: self, key }),
        }
    }
}

pub enum Entry<'a, K, V, S> {
    Occupied(OccupiedEntry<'a, K, V, S>),
    Vacant(VacantEntry<'a, K, V, S>),
}
pub struct OccupiedEntry<'a, K, V, S> {
    map: &'a mut HashMap<K, V, S>,
    pos: usize,
}
pub struct VacantEntry<'a, K, V, S> {
    map: &'a mut HashMap<K, V, S>,
    key: K,
}
impl<'a, K: Eq + Hash, V, S> Entry<'a, K, V, S> {
    pub fn or_insert(self, default: V) -> &'a mut V {
        self.or_insert_with(|| default)
    }
    pub fn or_insert_with<F: FnOnce() -> V>(self, default: F) -> &'a mut V {
        match self {
            Entry::Occupied(e) => &mut e.map.entries[e.pos].1,
            Entry::Vacant(e) => {
                let i = e.map.push(e.key, default());
                &mut e.map.entries[i].1
            }
        }
    }
}

// ------------------------------------------------------------ iteration

pub struct Iter<'a, K, V> {
    entries: &'a [(K, V)],
    hashes: &'a [u64],
    kind: SiteKind,
    loc: &'static Location<'static>,
    order: Option<Vec<u32>>,
    started: bool,
    pos: usize,
}
impl<'a, K, V> Iterator for Iter<'a, K, V> {
    type Item = (&'a K, &'a V);
    fn next(&mut self) -> Option<Self::Item> {
        if !self.started {
            self.started = true;
            self.order = control::enter_site(self.kind, self.hashes, self.loc);
        }
        if self.pos >= self.entries.len() {
            return None;
        }
        let i = match &self.order {
            Some(o) => o[self.pos] as usize,
            None => self.pos,
        };
        self.pos += 1;
        let (k, v) = &self.entries[i];
        Some((k, v))
    }
    fn size_hint(&self) -> (usize, Option<usize>) {
        let r = self.entries.len() - self.pos;
        (r, Some(r))
    }
}
impl<K, V> ExactSizeIterator for Iter<'_, K, V> {}

pub struct Keys<'a, K, V> {
    inner: Iter<'a, K, V>,
}
impl<'a, K, V> Iterator for Keys<'a, K, V> {
    type Item = &'a K;
    fn next(&mut self) -> Option<&'a K> {
        self.inner.next().map(|(k, _)| k)
    }
    fn size_hint(&self) -> (usize, Option<usize>) {
        self.inner.size_hint()
    }
}
impl<K, V> ExactSizeIterator for Keys<'_, K, V> {}

pub struct Values<'a, K, V> {
    inner: Iter<'a, K, V>,
}
impl<'a, K, V> Iterator for Values<'a, K, V> {
    type Item = &'a V;
    fn next(&mut self) -> Option<&'a V> {
        self.inner.next().map(|(_, v)| v)
    }
    fn size_hint(&self) -> (usize, Option<usize>) {
        self.inner.size_hint()
    }
}
impl<K, V> ExactSizeIterator for Values<'_, K, V> {}

pub struct IterMut<'a, K, V> {
    slots: Vec<Option<(&'a K, &'a mut V)>>,
    hashes: &'a [u64],
    kind: SiteKind,
    loc: &'static Location<'static>,
    order: Option<Vec<u32>>,
    started: bool,
    pos: usize,
}
impl<'a, K, V> Iterator for IterMut<'a, K, V> {
    type Item = (&'a K, &'a mut V);
    fn next(&mut self) -> Option<Self::Item> {
        if !self.started {
            self.started = true;
            self.order = control::enter_site(self.kind, self.hashes, self.loc);
        }
        if self.pos >= self.slots.len() {
            return None;
        }
        let i = match &self.order {
            Some(o) => o[self.pos] as usize,
            None => self.pos,
        };
        self.pos += 1;
        self.slots[i].take()
    }
    fn size_hint(&self) -> (usize, Option<usize>) {
        let r = self.slots.len() - self.pos;
        (r, Some(r))
    }
}
impl<K, V> ExactSizeIterator for IterMut<'_, K, V> {}

pub struct ValuesMut<'a, K, V> {
    inner: IterMut<'a, K, V>,
}
impl<'a, K, V> Iterator for ValuesMut<'a, K, V> {
    type Item = &'a mut V;
    fn next(&mut self) -> Option<&'a mut V> {
        self.inner.next().map(|(_, v)| v)
    }
    fn size_hint(&self) -> (usize, Option<usize>) {
        self.inner.size_hint()
    }
}

pub struct IntoIter<K, V> {
    slots: Vec<Option<(K, V)>>,
    hashes: Vec<u64>,
    loc: &'static Location<'static>,
    order: Option<Vec<u32>>,
    started: bool,
    pos: usize,
}
impl<K, V> Iterator for IntoIter<K, V> {
    type Item = (K, V);
    fn next(&mut self) -> Option<(K, V)> {
        if !self.started {
            self.started = true;
            self.order = control::enter_site(SiteKind::IntoIter, &self.hashes, self.loc);
        }
        if self.pos >= self.slots.len() {
            return None;
        }
        let i = match &self.order {
            Some(o) => o[self.pos] as usize,
            None => self.pos,
        };
        self.pos += 1;
        self.slots[i].take()
    }
    fn size_hint(&self) -> (usize, Option<usize>) {
        let r = self.slots.len() - self.pos;
        (r, Some(r))
    }
}
impl<K, V> ExactSizeIterator for IntoIter<K, V> {}

impl<K, V, S> IntoIterator for HashMap<K, V, S> {
    type Item = (K, V);
    type IntoIter = IntoIter<K, V>;
    #[track_caller]
    fn into_iter(self) -> IntoIter<K, V> {
        IntoIter {
            slots: self.entries.into_iter().map(Some).collect(),
            hashes: self.hashes,
            loc: Location::caller(),
            order: None,
            started: false,
            pos: 0,
        }
    }
}
impl<'a, K, V, S> IntoIterator for &'a HashMap<K, V, S> {
    type Item = (&'a K, &'a V);
    type IntoIter = Iter<'a, K, V>;
    #[track_caller]
    fn into_iter(self) -> Iter<'a, K, V> {
        self.raw_iter(SiteKind::Iter, Location::caller())
    }
}
impl<'a, K, V, S> IntoIterator for &'a mut HashMap<K, V, S> {
    type Item = (&'a K, &'a mut V);
    type IntoIter = IterMut<'a, K, V>;
    #[track_caller]
    fn into_iter(self) -> IterMut<'a, K, V> {
        self.raw_iter_mut(SiteKind::IterMut, Location::caller())
    }
}

impl<K: Eq + Hash, V, S> FromIterator<(K, V)> for HashMap<K, V, S> {
    fn from_iter<T: IntoIterator<Item = (K, V)>>(iter: T) -> Self {
        let mut m = HashMap::default();
        m.extend(iter);
        m
    }
}
impl<K: Eq + Hash, V, S> Extend<(K, V)> for HashMap<K, V, S> {
    fn extend<T: IntoIterator<Item = (K, V)>>(&mut self, iter: T) {
        for (k, v) in iter {
            self.insert(k, v);
        }
    }
}

/// `Debug` output of the real table follows its iteration order, so it is
/// a site as well.
impl<K: fmt::Debug, V: fmt::Debug, S> fmt::Debug for HashMap<K, V, S> {
    #[track_caller]
    fn fmt(&self, f: &mut fmt::Formatter<'_>) -> fmt::Result {
        f.debug_map().entries(self.raw_iter(SiteKind::Debug, Location::caller())).finish()
    }
}

impl<K: Eq + Hash, V: PartialEq, S> PartialEq for HashMap<K, V, S> {
    fn eq(&self, other: &Self) -> bool {
        self.len() == other.len() && self.entries.iter().all(|(k, v)| other.get(k) == Some(v))
    }
}
impl<K: Eq + Hash, V: Eq, S> Eq for HashMap<K, V, S> {}

impl<K, Q, V, S> std::ops::Index<&Q> for HashMap<K, V, S>
where
    K: Eq + Hash + Borrow<Q>,
    Q: Eq + Hash + ?Sized,
{
    type Output = V;
    fn index(&self, key: &Q) -> &V {
        self.get(key).expect("no entry found for key")
    }
}
