//! Order-controlled stand-in for `hashbrown` 0.12 (verification harness,
//! DESIGN E5b). Entries live in a vector in insertion order, with an index
//! from a fixed (process-independent) key hash to entry positions. Every
//! iteration over a map is a SITE whose order the thread-local controller
//! ([`control`]) chooses; lookups never depend on it.
//!
//! Only the API subset used by dusk-plonk is provided; anything else is a
//! compile error of workspace #2 ("shim out of date"), never a verdict.

pub mod control;
pub mod hash_map;
pub mod hash_set;

pub use hash_map::HashMap;
pub use hash_set::HashSet;
