//! Controller of the virtual scheduler. All state is thread-local, so
//! independent schedules can be explored on independent OS threads.
//!
//! Regions are numbered 0,1,2,… in execution order from the last [`begin`]
//! (nested regions get their ordinal when they are entered, i.e. depth-first
//! in the order the enclosing region runs its tasks). A schedule is a default
//! policy plus a map `region ordinal → policy`.

use std::cell::RefCell;
use std::collections::HashMap;
use std::panic::Location;

/// What a region does with its tasks.
#[derive(Clone, Copy, Debug, PartialEq, Eq, Hash, PartialOrd, Ord)]
pub enum Kind {
    Join,
    ForEach,
    Collect,
    Sum,
    All,
}
impl Kind {
    pub fn name(&self) -> &'static str {
        match self {
            Kind::Join => "join",
            Kind::ForEach => "for_each",
            Kind::Collect => "collect",
            Kind::Sum => "sum",
            Kind::All => "all",
        }
    }
}

#[derive(Clone, Copy, Debug, PartialEq, Eq, Hash, PartialOrd, Ord)]
pub enum Policy {
    /// tasks 0,1,…,n-1; `sum` = one left fold over all items in index order
    Identity,
    /// n-1,…,1,0
    Reverse,
    /// 1,2,…,n-1,0
    RotateBy1,
    /// 1,3,5,…,0,2,4,…
    OddBeforeEven,
    /// n-1,0,1,…,n-2
    LastFirst,
    /// `join` only: run closure b, then closure a (identity elsewhere)
    BBeforeA,
    /// `sum` only: every item is its own chunk (`once(x).sum()`), partial sums
    /// combined left to right (identity elsewhere)
    PerItemChunks,
    /// `sum` only: balanced binary reduction tree, as rayon's splitter produces
    Halves,
    /// `sum` only: per-item chunks combined right to left
    ReversedChunks,
}

impl Policy {
    pub const ALL: [Policy; 9] = [
        Policy::Identity,
        Policy::Reverse,
        Policy::RotateBy1,
        Policy::OddBeforeEven,
        Policy::LastFirst,
        Policy::BBeforeA,
        Policy::PerItemChunks,
        Policy::Halves,
        Policy::ReversedChunks,
    ];
    pub fn name(&self) -> &'static str {
        match self {
            Policy::Identity => "Identity",
            Policy::Reverse => "Reverse",
            Policy::RotateBy1 => "RotateBy1",
            Policy::OddBeforeEven => "OddBeforeEven",
            Policy::LastFirst => "LastFirst",
            Policy::BBeforeA => "BBeforeA",
            Policy::PerItemChunks => "PerItemChunks",
            Policy::Halves => "Halves",
            Policy::ReversedChunks => "ReversedChunks",
        }
    }
    pub fn from_name(s: &str) -> Option<Policy> {
        Policy::ALL.iter().copied().find(|p| p.name() == s)
    }
    pub fn is_sum_shape(&self) -> bool {
        matches!(self, Policy::PerItemChunks | Policy::Halves | Policy::ReversedChunks)
    }
}

/// Execution order of `n` tasks under `policy` (a permutation of 0..n).
/// Shape policies and `BBeforeA` on n != 2 keep the identity order.
pub fn permutation(policy: Policy, n: usize) -> Vec<usize> {
    match policy {
        Policy::Reverse => (0..n).rev().collect(),
        Policy::RotateBy1 if n > 0 => (1..n).chain(std::iter::once(0)).collect(),
        Policy::OddBeforeEven => (0..n).filter(|i| i % 2 == 1).chain((0..n).filter(|i| i % 2 == 0)).collect(),
        Policy::LastFirst if n > 0 => std::iter::once(n - 1).chain(0..n - 1).collect(),
        Policy::BBeforeA if n == 2 => vec![1, 0],
        _ => (0..n).collect(),
    }
}

/// Does `policy` change anything observable (order or reduction shape) for a
/// region of this kind and size?
pub fn effective(policy: Policy, kind: Kind, n: usize) -> bool {
    if n < 2 {
        return false;
    }
    match policy {
        Policy::Identity => false,
        Policy::BBeforeA => kind == Kind::Join,
        p if p.is_sum_shape() => kind == Kind::Sum,
        p => permutation(p, n).iter().enumerate().any(|(i, &j)| i != j),
    }
}

/// The non-identity policies with pairwise distinct effect on a region of
/// this kind and size (bound-1 alphabet of the explorer).
pub fn applicable(kind: Kind, n: usize) -> Vec<Policy> {
    if n < 2 {
        return vec![];
    }
    if kind == Kind::Join {
        return vec![Policy::BBeforeA];
    }
    let mut out: Vec<Policy> = vec![];
    let mut seen: Vec<Vec<usize>> = vec![];
    for p in [Policy::Reverse, Policy::RotateBy1, Policy::OddBeforeEven, Policy::LastFirst] {
        // for n > 8 the four orders are pairwise distinct; below that compare
        // the permutations themselves (e.g. all four coincide for n = 2)
        let m = n.min(8);
        let perm = permutation(p, m);
        if perm.iter().enumerate().all(|(i, &j)| i == j) || seen.contains(&perm) {
            continue;
        }
        seen.push(perm);
        out.push(p);
    }
    if kind == Kind::Sum {
        out.push(Policy::PerItemChunks);
        out.push(Policy::Halves);
        out.push(Policy::ReversedChunks);
    }
    out
}

#[derive(Clone, Debug)]
pub struct Schedule {
    pub default: Policy,
    pub overrides: Vec<(u64, Policy)>,
    pub num_threads: usize,
}
impl Default for Schedule {
    fn default() -> Self {
        Schedule { default: Policy::Identity, overrides: vec![], num_threads: 1 }
    }
}

#[derive(Clone, Debug)]
pub struct Region {
    pub ordinal: u64,
    pub kind: Kind,
    pub tasks: usize,
    pub file: &'static str,
    pub line: u32,
    pub policy: Policy,
    /// the policy changed order or shape of a region with >= 2 tasks
    pub permuted: bool,
    /// nesting depth (0 = not inside another region's task)
    pub depth: u32,
}

#[derive(Clone, Debug, Default)]
pub struct Trace {
    pub regions: Vec<Region>,
    /// calls of `current_num_threads()` since `begin`
    pub num_threads_queries: u64,
    /// overrides whose ordinal was never reached
    pub unused_overrides: Vec<u64>,
}

struct State {
    default: Policy,
    overrides: HashMap<u64, Policy>,
    used: Vec<u64>,
    num_threads: usize,
    pools: Vec<usize>,
    next: u64,
    depth: u32,
    queries: u64,
    record: bool,
    regions: Vec<Region>,
}

thread_local! {
    static STATE: RefCell<State> = RefCell::new(State {
        default: Policy::Identity,
        overrides: HashMap::new(),
        used: vec![],
        num_threads: 1,
        pools: vec![],
        next: 0,
        depth: 0,
        queries: 0,
        record: false,
        regions: vec![],
    });
}

/// Install a schedule on this thread, reset ordinals and start recording.
pub fn begin(s: &Schedule) {
    STATE.with(|st| {
        let mut st = st.borrow_mut();
        st.default = s.default;
        st.overrides = s.overrides.iter().copied().collect();
        st.used.clear();
        st.num_threads = s.num_threads.max(1);
        st.next = 0;
        st.depth = 0;
        st.queries = 0;
        st.record = true;
        st.regions.clear();
    });
}

/// Stop recording, return the trace and fall back to the canonical schedule
/// (identity everywhere, one thread).
pub fn end() -> Trace {
    STATE.with(|st| {
        let mut st = st.borrow_mut();
        let regions = std::mem::take(&mut st.regions);
        let mut unused: Vec<u64> = st.overrides.keys().copied().filter(|k| !st.used.contains(k)).collect();
        unused.sort();
        let t = Trace { regions, num_threads_queries: st.queries, unused_overrides: unused };
        st.default = Policy::Identity;
        st.overrides.clear();
        st.used.clear();
        st.num_threads = 1;
        st.record = false;
        st.next = 0;
        st.depth = 0;
        t
    })
}

/// Change the value `current_num_threads()` reports (outside pools built
/// with an explicit size).
pub fn set_num_threads(n: usize) {
    STATE.with(|st| st.borrow_mut().num_threads = n.max(1));
}

pub fn current_num_threads() -> usize {
    STATE.with(|st| {
        let mut st = st.borrow_mut();
        st.queries += 1;
        match st.pools.iter().rev().find(|&&n| n != 0) {
            Some(&n) => n,
            None => st.num_threads,
        }
    })
}

pub(crate) struct PoolGuard;
impl Drop for PoolGuard {
    fn drop(&mut self) {
        STATE.with(|st| {
            st.borrow_mut().pools.pop();
        });
    }
}
pub(crate) fn push_pool(n: usize) -> PoolGuard {
    STATE.with(|st| st.borrow_mut().pools.push(n));
    PoolGuard
}

/// Called by every region before it runs its tasks: assigns the ordinal,
/// looks up the policy and records the region.
pub(crate) fn enter_region(kind: Kind, tasks: usize, loc: &'static Location<'static>) -> Policy {
    STATE.with(|st| {
        let mut st = st.borrow_mut();
        let ordinal = st.next;
        st.next += 1;
        let policy = match st.overrides.get(&ordinal) {
            Some(&p) => {
                st.used.push(ordinal);
                p
            }
            None => st.default,
        };
        if st.record {
            let depth = st.depth;
            st.regions.push(Region {
                ordinal,
                kind,
                tasks,
                file: loc.file(),
                line: loc.line(),
                policy,
                permuted: effective(policy, kind, tasks),
                depth,
            });
        }
        policy
    })
}

/// Nesting bookkeeping around the execution of a region's tasks.
pub(crate) struct DepthGuard;
impl Drop for DepthGuard {
    fn drop(&mut self) {
        STATE.with(|st| {
            let mut st = st.borrow_mut();
            st.depth = st.depth.saturating_sub(1);
        });
    }
}
pub(crate) fn nest() -> DepthGuard {
    STATE.with(|st| st.borrow_mut().depth += 1);
    DepthGuard
}
