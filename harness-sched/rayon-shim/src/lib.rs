//! Virtual-scheduler stand-in for `rayon` (verification harness, DESIGN E5).
//!
//! Implements the API subset used by dusk-plonk and dusk-bls12_381 plus the common
//! indexed adaptors (enumerate / skip / take / step_by / rev / zip / chunks / reduce)
//! a routine parallelisation patch is likely to reach for.
//! Nothing runs in parallel: every parallel REGION (a `join`, a `for_each`, a
//! `collect`, a `sum`, an `all`) materialises its items as a list of tasks and
//! asks the thread-local controller ([`control`]) in which order to run them
//! on the calling OS thread. Results of `collect` are placed back by index;
//! `sum` additionally lets the controller choose the shape of the reduction.
//! `current_num_threads()` returns a controller-chosen value.
//!
//! A use of any rayon item that is not provided here is a compile error of
//! workspace #2 ("shim out of date"), never a verdict.

pub mod control;
pub mod iter;
pub mod slice;

pub mod prelude {
    pub use crate::iter::{
        FromParallelIterator, IndexedParallelIterator, IntoParallelIterator, IntoParallelRefIterator,
        IntoParallelRefMutIterator, ParallelIterator,
    };
    pub use crate::slice::{ParallelSlice, ParallelSliceMut};
}

use control::Kind;
use std::panic::Location;

/// `rayon::join`: two tasks, run a-then-b or b-then-a as the controller says.
#[track_caller]
pub fn join<A, B, RA, RB>(oper_a: A, oper_b: B) -> (RA, RB)
where
    A: FnOnce() -> RA + Send,
    B: FnOnce() -> RB + Send,
    RA: Send,
    RB: Send,
{
    let loc = Location::caller();
    let policy = control::enter_region(Kind::Join, 2, loc);
    let order = control::permutation(policy, 2);
    let _nest = control::nest();
    if order[0] == 0 {
        let ra = oper_a();
        let rb = oper_b();
        (ra, rb)
    } else {
        let rb = oper_b();
        let ra = oper_a();
        (ra, rb)
    }
}

/// Controller-chosen thread count (inside `ThreadPool::install` of a pool
/// built with an explicit `num_threads`, that pool's size).
pub fn current_num_threads() -> usize {
    control::current_num_threads()
}

#[derive(Debug)]
pub struct ThreadPoolBuildError;
impl std::fmt::Display for ThreadPoolBuildError {
    fn fmt(&self, f: &mut std::fmt::Formatter<'_>) -> std::fmt::Result {
        write!(f, "ThreadPoolBuildError (rayon shim)")
    }
}
impl std::error::Error for ThreadPoolBuildError {}

#[derive(Default, Debug)]
pub struct ThreadPoolBuilder {
    num_threads: usize,
}
impl ThreadPoolBuilder {
    pub fn new() -> Self {
        ThreadPoolBuilder { num_threads: 0 }
    }
    pub fn num_threads(mut self, n: usize) -> Self {
        self.num_threads = n;
        self
    }
    pub fn build(self) -> Result<ThreadPool, ThreadPoolBuildError> {
        Ok(ThreadPool { num_threads: self.num_threads })
    }
}

#[derive(Debug)]
pub struct ThreadPool {
    num_threads: usize,
}
impl ThreadPool {
    /// Runs `op` on the calling thread; `current_num_threads()` inside reports
    /// the pool's size (0 = "default" = the controller's value).
    pub fn install<OP, R>(&self, op: OP) -> R
    where
        OP: FnOnce() -> R + Send,
        R: Send,
    {
        let _g = control::push_pool(self.num_threads);
        op()
    }
    pub fn current_num_threads(&self) -> usize {
        if self.num_threads == 0 {
            control::current_num_threads()
        } else {
            self.num_threads
        }
    }
}
