//! `ParallelSlice` / `ParallelSliceMut`: chunked views, one task per chunk.

use crate::iter::Iter;

pub trait ParallelSliceMut<T: Send> {
    fn as_parallel_slice_mut(&mut self) -> &mut [T];

    /// One task per chunk (the last chunk may be shorter), like rayon.
    fn par_chunks_mut(&mut self, chunk_size: usize) -> Iter<&mut [T]> {
        assert!(chunk_size != 0, "chunk_size must not be zero");
        Iter::from_vec(self.as_parallel_slice_mut().chunks_mut(chunk_size).collect())
    }

    fn par_chunks_exact_mut(&mut self, chunk_size: usize) -> Iter<&mut [T]> {
        assert!(chunk_size != 0, "chunk_size must not be zero");
        Iter::from_vec(self.as_parallel_slice_mut().chunks_exact_mut(chunk_size).collect())
    }

    /// Sorting is not a scheduling-visible operation: sequential, deterministic.
    fn par_sort(&mut self)
    where
        T: Ord,
    {
        self.as_parallel_slice_mut().sort()
    }
    fn par_sort_unstable(&mut self)
    where
        T: Ord,
    {
        self.as_parallel_slice_mut().sort_unstable()
    }
    fn par_sort_by_key<K: Ord, F: Fn(&T) -> K + Sync>(&mut self, f: F) {
        self.as_parallel_slice_mut().sort_by_key(f)
    }
    fn par_sort_unstable_by_key<K: Ord, F: Fn(&T) -> K + Sync>(&mut self, f: F) {
        self.as_parallel_slice_mut().sort_unstable_by_key(f)
    }
}

pub trait ParallelSlice<T: Sync> {
    fn as_parallel_slice(&self) -> &[T];

    fn par_chunks(&self, chunk_size: usize) -> Iter<&[T]> {
        assert!(chunk_size != 0, "chunk_size must not be zero");
        Iter::from_vec(self.as_parallel_slice().chunks(chunk_size).collect())
    }
    fn par_chunks_exact(&self, chunk_size: usize) -> Iter<&[T]> {
        assert!(chunk_size != 0, "chunk_size must not be zero");
        Iter::from_vec(self.as_parallel_slice().chunks_exact(chunk_size).collect())
    }
    fn par_windows(&self, window_size: usize) -> Iter<&[T]> {
        Iter::from_vec(self.as_parallel_slice().windows(window_size).collect())
    }
}

impl<T: Sync> ParallelSlice<T> for [T] {
    fn as_parallel_slice(&self) -> &[T] {
        self
    }
}

impl<T: Send> ParallelSliceMut<T> for [T] {
    fn as_parallel_slice_mut(&mut self) -> &mut [T] {
        self
    }
}
