//! `ParallelSliceMut::par_chunks_mut`.

use crate::iter::Iter;

pub trait ParallelSliceMut<T: Send> {
    fn as_parallel_slice_mut(&mut self) -> &mut [T];

    /// One task per chunk (the last chunk may be shorter), like rayon.
    fn par_chunks_mut(&mut self, chunk_size: usize) -> Iter<&mut [T]> {
        assert!(chunk_size != 0, "chunk_size must not be zero");
        Iter::from_vec(self.as_parallel_slice_mut().chunks_mut(chunk_size).collect())
    }
}

impl<T: Send> ParallelSliceMut<T> for [T] {
    fn as_parallel_slice_mut(&mut self) -> &mut [T] {
        self
    }
}
