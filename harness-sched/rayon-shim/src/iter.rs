//! Parallel-iterator subset. Every iterator is (a vector of base items, a
//! composed per-item function); terminal operations turn the base items into
//! the tasks of one region and run them in controller-chosen order.

use crate::control::{self, Kind, Policy};
use std::iter::Sum;
use std::panic::Location;

pub trait ParallelIterator: Sized + Send {
    type Item: Send;
    /// Base item (index, reference, chunk, …) a task starts from.
    type Base;

    /// Split into the base items (one per task, in index order) and the
    /// composed adaptor function (`None` = dropped by a `filter`).
    fn parts(self) -> (Vec<Self::Base>, impl Fn(Self::Base) -> Option<Self::Item>);

    fn map<F, R>(self, map_op: F) -> Map<Self, F>
    where
        F: Fn(Self::Item) -> R + Sync + Send,
        R: Send,
    {
        Map { base: self, f: map_op }
    }

    fn filter<P>(self, filter_op: P) -> Filter<Self, P>
    where
        P: Fn(&Self::Item) -> bool + Sync + Send,
    {
        Filter { base: self, p: filter_op }
    }

    #[track_caller]
    fn for_each<OP>(self, op: OP)
    where
        OP: Fn(Self::Item) + Sync + Send,
    {
        let loc = Location::caller();
        let (bases, f) = self.parts();
        let _ = run_region(Kind::ForEach, loc, bases, |b| f(b).map(&op));
    }

    #[track_caller]
    fn collect<C>(self) -> C
    where
        C: FromParallelIterator<Self::Item>,
    {
        C::from_par_iter(self)
    }

    #[track_caller]
    fn sum<S>(self) -> S
    where
        S: Send + Sum<Self::Item> + Sum<S>,
    {
        let loc = Location::caller();
        let (bases, f) = self.parts();
        let (slots, policy) = run_region(Kind::Sum, loc, bases, f);
        let items: Vec<Self::Item> = slots.into_iter().flatten().collect();
        reduce_sum::<Self::Item, S>(items, policy)
    }

    fn filter_map<F, R>(self, filter_op: F) -> FilterMap<Self, F>
    where
        F: Fn(Self::Item) -> Option<R> + Sync + Send,
        R: Send,
    {
        FilterMap { base: self, f: filter_op }
    }

    fn copied<'a, T>(self) -> Map<Self, fn(&'a T) -> T>
    where
        T: 'a + Copy + Send + Sync,
        Self: ParallelIterator<Item = &'a T>,
    {
        fn deref<T: Copy>(x: &T) -> T {
            *x
        }
        Map { base: self, f: deref::<T> as fn(&'a T) -> T }
    }

    fn cloned<'a, T>(self) -> Map<Self, fn(&'a T) -> T>
    where
        T: 'a + Clone + Send + Sync,
        Self: ParallelIterator<Item = &'a T>,
    {
        fn cl<T: Clone>(x: &T) -> T {
            x.clone()
        }
        Map { base: self, f: cl::<T> as fn(&'a T) -> T }
    }

    /// `reduce`: the tasks run in controller-chosen order; the (associative)
    /// operator is applied left-to-right or as a balanced tree, as the
    /// controller's reduction shape says.
    #[track_caller]
    fn reduce<OP, ID>(self, identity: ID, op: OP) -> Self::Item
    where
        OP: Fn(Self::Item, Self::Item) -> Self::Item + Sync + Send,
        ID: Fn() -> Self::Item + Sync + Send,
    {
        let loc = Location::caller();
        let (bases, f) = self.parts();
        let (slots, policy) = run_region(Kind::Sum, loc, bases, f);
        let items: Vec<Self::Item> = slots.into_iter().flatten().collect();
        fn tree<T>(mut v: Vec<T>, id: &dyn Fn() -> T, op: &dyn Fn(T, T) -> T) -> T {
            if v.is_empty() {
                return id();
            }
            if v.len() == 1 {
                return op(id(), v.pop().unwrap());
            }
            let r = v.split_off(v.len() / 2);
            let a = tree(v, id, op);
            let b = tree(r, id, op);
            op(a, b)
        }
        match policy {
            Policy::Halves => tree(items, &identity, &op),
            Policy::ReversedChunks | Policy::PerItemChunks => items.into_iter().map(|x| op(identity(), x)).fold(identity(), &op),
            _ => items.into_iter().fold(identity(), &op),
        }
    }

    #[track_caller]
    fn count(self) -> usize {
        let loc = Location::caller();
        let (bases, f) = self.parts();
        let (slots, _) = run_region(Kind::All, loc, bases, f);
        slots.into_iter().flatten().count()
    }

    #[track_caller]
    fn any<P>(self, predicate: P) -> bool
    where
        P: Fn(Self::Item) -> bool + Sync + Send,
    {
        let loc = Location::caller();
        let (bases, f) = self.parts();
        let (slots, _) = run_region(Kind::All, loc, bases, |b| f(b).map(&predicate));
        slots.into_iter().flatten().any(|x| x)
    }

    #[track_caller]
    fn all<P>(self, predicate: P) -> bool
    where
        P: Fn(Self::Item) -> bool + Sync + Send,
    {
        let loc = Location::caller();
        let (bases, f) = self.parts();
        let (slots, _) = run_region(Kind::All, loc, bases, |b| f(b).map(&predicate));
        slots.into_iter().flatten().all(|x| x)
    }
}

/// Marker for iterators with a known length and position (no `filter`).
pub trait IndexedParallelIterator: ParallelIterator {
    /// Pairs items positionally; the result has the length of the shorter side.
    fn zip<Z>(self, zip_op: Z) -> Zip<Self, Z::Iter>
    where
        Z: IntoParallelIterator,
        Z::Iter: IndexedParallelIterator,
    {
        Zip { a: self, b: zip_op.into_par_iter() }
    }

    fn enumerate(self) -> Enumerate<Self> {
        Enumerate { base: self }
    }
    fn skip(self, n: usize) -> Window<Self> {
        Window { base: self, skip: n, take: usize::MAX, step: 1, rev: false }
    }
    fn take(self, n: usize) -> Window<Self> {
        Window { base: self, skip: 0, take: n, step: 1, rev: false }
    }
    fn step_by(self, step: usize) -> Window<Self> {
        assert!(step != 0);
        Window { base: self, skip: 0, take: usize::MAX, step, rev: false }
    }
    fn rev(self) -> Window<Self> {
        Window { base: self, skip: 0, take: usize::MAX, step: 1, rev: true }
    }
    fn with_min_len(self, _min: usize) -> Self {
        self
    }
    fn with_max_len(self, _max: usize) -> Self {
        self
    }
}

/// Run one region: ask the controller for the order, execute task `i` as
/// `f(base[i])` in that order, return the results by index.
fn run_region<B, T>(
    kind: Kind,
    loc: &'static Location<'static>,
    bases: Vec<B>,
    f: impl Fn(B) -> Option<T>,
) -> (Vec<Option<T>>, Policy) {
    let n = bases.len();
    let policy = control::enter_region(kind, n, loc);
    let _nest = control::nest();
    let mut out: Vec<Option<T>> = Vec::with_capacity(n);
    match policy {
        // fast path, no shuffling needed
        Policy::Identity | Policy::BBeforeA | Policy::PerItemChunks | Policy::Halves | Policy::ReversedChunks => {
            for b in bases {
                out.push(f(b));
            }
        }
        _ => {
            let order = control::permutation(policy, n);
            let mut bases: Vec<Option<B>> = bases.into_iter().map(Some).collect();
            out.resize_with(n, || None);
            for i in order {
                let b = bases[i].take().expect("permutation visits every task once");
                out[i] = f(b);
            }
        }
    }
    (out, policy)
}

fn add2<S: Sum<S>>(a: S, b: S) -> S {
    // rayon combines partial sums with `once(a).chain(once(b)).sum()`
    std::iter::once(a).chain(std::iter::once(b)).sum()
}

fn tree_sum<T, S: Sum<T> + Sum<S>>(items: &mut [Option<T>]) -> S {
    if items.len() <= 1 {
        return items.iter_mut().map(|x| x.take().unwrap()).sum();
    }
    let mid = items.len() / 2;
    let (l, r) = items.split_at_mut(mid);
    let ls = tree_sum::<T, S>(l);
    let rs = tree_sum::<T, S>(r);
    add2(ls, rs)
}

fn reduce_sum<T, S: Sum<T> + Sum<S>>(items: Vec<T>, policy: Policy) -> S {
    match policy {
        Policy::PerItemChunks => {
            let identity: S = std::iter::empty::<T>().sum();
            items.into_iter().map(|x| std::iter::once(x).sum::<S>()).fold(identity, add2)
        }
        Policy::ReversedChunks => {
            let identity: S = std::iter::empty::<T>().sum();
            let partials: Vec<S> = items.into_iter().map(|x| std::iter::once(x).sum::<S>()).collect();
            partials.into_iter().rev().fold(identity, add2)
        }
        Policy::Halves => {
            let mut items: Vec<Option<T>> = items.into_iter().map(Some).collect();
            tree_sum::<T, S>(&mut items)
        }
        _ => items.into_iter().sum(),
    }
}

// ---------------------------------------------------------------- collect

pub trait FromParallelIterator<T: Send> {
    #[track_caller]
    fn from_par_iter<I>(par_iter: I) -> Self
    where
        I: IntoParallelIterator<Item = T>;
}

/// Only `Vec<T>` (original order preserved, also after `filter`).
impl<T: Send> FromParallelIterator<T> for Vec<T> {
    #[track_caller]
    fn from_par_iter<I>(par_iter: I) -> Self
    where
        I: IntoParallelIterator<Item = T>,
    {
        let loc = Location::caller();
        let (bases, f) = par_iter.into_par_iter().parts();
        let (slots, _) = run_region(Kind::Collect, loc, bases, f);
        slots.into_iter().flatten().collect()
    }
}

// ---------------------------------------------------------------- sources

/// The one base producer: a vector of items, one task each.
#[derive(Clone, Debug)]
pub struct Iter<T> {
    items: Vec<T>,
}
impl<T> Iter<T> {
    pub(crate) fn from_vec(items: Vec<T>) -> Self {
        Iter { items }
    }
}
impl<T: Send> ParallelIterator for Iter<T> {
    type Item = T;
    type Base = T;
    fn parts(self) -> (Vec<T>, impl Fn(T) -> Option<T>) {
        (self.items, Some)
    }
}
impl<T: Send> IndexedParallelIterator for Iter<T> {}

pub trait IntoParallelIterator {
    type Iter: ParallelIterator<Item = Self::Item>;
    type Item: Send;
    fn into_par_iter(self) -> Self::Iter;
}
impl<T: ParallelIterator> IntoParallelIterator for T {
    type Iter = T;
    type Item = T::Item;
    fn into_par_iter(self) -> T {
        self
    }
}
impl IntoParallelIterator for std::ops::Range<usize> {
    type Iter = Iter<usize>;
    type Item = usize;
    fn into_par_iter(self) -> Iter<usize> {
        Iter::from_vec(self.collect())
    }
}
impl<T: Send> IntoParallelIterator for Vec<T> {
    type Iter = Iter<T>;
    type Item = T;
    fn into_par_iter(self) -> Iter<T> {
        Iter::from_vec(self)
    }
}
impl<'a, T: Sync + 'a> IntoParallelIterator for &'a [T] {
    type Iter = Iter<&'a T>;
    type Item = &'a T;
    fn into_par_iter(self) -> Iter<&'a T> {
        Iter::from_vec(self.iter().collect())
    }
}
impl<'a, T: Send + 'a> IntoParallelIterator for &'a mut [T] {
    type Iter = Iter<&'a mut T>;
    type Item = &'a mut T;
    fn into_par_iter(self) -> Iter<&'a mut T> {
        Iter::from_vec(self.iter_mut().collect())
    }
}
impl<'a, T: Sync + 'a> IntoParallelIterator for &'a Vec<T> {
    type Iter = Iter<&'a T>;
    type Item = &'a T;
    fn into_par_iter(self) -> Iter<&'a T> {
        Iter::from_vec(self.iter().collect())
    }
}
impl<'a, T: Send + 'a> IntoParallelIterator for &'a mut Vec<T> {
    type Iter = Iter<&'a mut T>;
    type Item = &'a mut T;
    fn into_par_iter(self) -> Iter<&'a mut T> {
        Iter::from_vec(self.iter_mut().collect())
    }
}
impl<'a, T: Sync + 'a, const N: usize> IntoParallelIterator for &'a [T; N] {
    type Iter = Iter<&'a T>;
    type Item = &'a T;
    fn into_par_iter(self) -> Iter<&'a T> {
        Iter::from_vec(self.iter().collect())
    }
}
impl<'a, T: Send + 'a, const N: usize> IntoParallelIterator for &'a mut [T; N] {
    type Iter = Iter<&'a mut T>;
    type Item = &'a mut T;
    fn into_par_iter(self) -> Iter<&'a mut T> {
        Iter::from_vec(self.iter_mut().collect())
    }
}

pub trait IntoParallelRefIterator<'data> {
    type Iter: ParallelIterator<Item = Self::Item>;
    type Item: Send + 'data;
    fn par_iter(&'data self) -> Self::Iter;
}
impl<'data, I: 'data + ?Sized> IntoParallelRefIterator<'data> for I
where
    &'data I: IntoParallelIterator,
{
    type Iter = <&'data I as IntoParallelIterator>::Iter;
    type Item = <&'data I as IntoParallelIterator>::Item;
    fn par_iter(&'data self) -> Self::Iter {
        self.into_par_iter()
    }
}

pub trait IntoParallelRefMutIterator<'data> {
    type Iter: ParallelIterator<Item = Self::Item>;
    type Item: Send + 'data;
    fn par_iter_mut(&'data mut self) -> Self::Iter;
}
impl<'data, I: 'data + ?Sized> IntoParallelRefMutIterator<'data> for I
where
    &'data mut I: IntoParallelIterator,
{
    type Iter = <&'data mut I as IntoParallelIterator>::Iter;
    type Item = <&'data mut I as IntoParallelIterator>::Item;
    fn par_iter_mut(&'data mut self) -> Self::Iter {
        self.into_par_iter()
    }
}

// ---------------------------------------------------------------- adaptors

#[derive(Clone, Debug)]
pub struct Map<I, F> {
    base: I,
    f: F,
}
impl<I, F, R> ParallelIterator for Map<I, F>
where
    I: ParallelIterator,
    F: Fn(I::Item) -> R + Sync + Send,
    R: Send,
{
    type Item = R;
    type Base = I::Base;
    fn parts(self) -> (Vec<I::Base>, impl Fn(I::Base) -> Option<R>) {
        let (bases, g) = self.base.parts();
        let f = self.f;
        (bases, move |b| g(b).map(&f))
    }
}
impl<I, F, R> IndexedParallelIterator for Map<I, F>
where
    I: IndexedParallelIterator,
    F: Fn(I::Item) -> R + Sync + Send,
    R: Send,
{
}

#[derive(Clone, Debug)]
pub struct Filter<I, P> {
    base: I,
    p: P,
}
impl<I, P> ParallelIterator for Filter<I, P>
where
    I: ParallelIterator,
    P: Fn(&I::Item) -> bool + Sync + Send,
{
    type Item = I::Item;
    type Base = I::Base;
    fn parts(self) -> (Vec<I::Base>, impl Fn(I::Base) -> Option<I::Item>) {
        let (bases, g) = self.base.parts();
        let p = self.p;
        (bases, move |b| g(b).filter(|x| p(x)))
    }
}

#[derive(Clone, Debug)]
pub struct Zip<A, B> {
    a: A,
    b: B,
}
impl<A, B> ParallelIterator for Zip<A, B>
where
    A: IndexedParallelIterator,
    B: IndexedParallelIterator,
{
    type Item = (A::Item, B::Item);
    type Base = (A::Base, B::Base);
    fn parts(self) -> (Vec<(A::Base, B::Base)>, impl Fn((A::Base, B::Base)) -> Option<(A::Item, B::Item)>) {
        let (va, fa) = self.a.parts();
        let (vb, fb) = self.b.parts();
        // std `zip` truncates to the shorter side, as rayon's does
        (va.into_iter().zip(vb).collect(), move |(x, y)| Some((fa(x)?, fb(y)?)))
    }
}
impl<A, B> IndexedParallelIterator for Zip<A, B>
where
    A: IndexedParallelIterator,
    B: IndexedParallelIterator,
{
}


#[derive(Clone, Debug)]
pub struct FilterMap<I, F> {
    base: I,
    f: F,
}
impl<I, F, R> ParallelIterator for FilterMap<I, F>
where
    I: ParallelIterator,
    F: Fn(I::Item) -> Option<R> + Sync + Send,
    R: Send,
{
    type Item = R;
    type Base = I::Base;
    fn parts(self) -> (Vec<I::Base>, impl Fn(I::Base) -> Option<R>) {
        let (bases, g) = self.base.parts();
        let f = self.f;
        (bases, move |b| g(b).and_then(&f))
    }
}

#[derive(Clone, Debug)]
pub struct Enumerate<I> {
    base: I,
}
impl<I: IndexedParallelIterator> ParallelIterator for Enumerate<I> {
    type Item = (usize, I::Item);
    type Base = (usize, I::Base);
    fn parts(self) -> (Vec<(usize, I::Base)>, impl Fn((usize, I::Base)) -> Option<(usize, I::Item)>) {
        let (bases, g) = self.base.parts();
        (bases.into_iter().enumerate().collect(), move |(i, b)| g(b).map(|x| (i, x)))
    }
}
impl<I: IndexedParallelIterator> IndexedParallelIterator for Enumerate<I> {}

/// `skip` / `take` / `step_by` / `rev`: a positional selection of the tasks.
#[derive(Clone, Debug)]
pub struct Window<I> {
    base: I,
    skip: usize,
    take: usize,
    step: usize,
    rev: bool,
}
impl<I: IndexedParallelIterator> ParallelIterator for Window<I> {
    type Item = I::Item;
    type Base = I::Base;
    fn parts(self) -> (Vec<I::Base>, impl Fn(I::Base) -> Option<I::Item>) {
        let (bases, g) = self.base.parts();
        let mut v: Vec<I::Base> = bases.into_iter().skip(self.skip).take(self.take).step_by(self.step).collect();
        if self.rev {
            v.reverse();
        }
        (v, g)
    }
}
impl<I: IndexedParallelIterator> IndexedParallelIterator for Window<I> {}
