//! Emits the key / proof hashes of the alloc-only (no `std`, no rayon) build
//! of dusk-plonk for the plain C18 subjects. The main harness includes the
//! same `plain_subjects.rs` in the std build and compares the lines.

#[path = "../../harness/src/plain_subjects.rs"]
mod plain_subjects;

fn main() {
    let ids: Vec<String> = std::env::args().skip(1).collect();
    for id in ids {
        println!("{}", plain_subjects::hash_line(&id));
    }
}
